//! C09 STAMQL parsing is total and printing then parsing is a fixpoint.
//!
//! (a) totality: `Query::parse` / `TryFrom<&str>` never panic, over arbitrary strings, keyword soups,
//!     grammar-generated queries with token-level mutations and an enumerated battery (every keyword
//!     alone / in every context, canonical queries truncated at every character and with every token
//!     deleted, numeric literal battery).
//! (b) round trip: for every query that parses, and for programmatically built queries that lie in the
//!     image of the grammar and that `to_string()` accepts: the printed text re-parses completely,
//!     the structural dump (harness side, see `dump_query`) is equal, the second print equals the
//!     first, and on a small fixed store both queries give identical results.
//!
//! Helper modules: `c09_spec.rs` (query specs, harness-side printer, builders, strategies),
//! `c09_dump.rs` (structural dump, diff, oddities, evaluation on the fixed store).

use crate::engine::*;
use proptest::prelude::*;
use serde::{Deserialize, Serialize};
use stam::*;
use std::collections::BTreeMap;

#[path = "c09_spec.rs"]
pub mod spec;
#[path = "c09_dump.rs"]
pub mod dump;

use dump::*;
use spec::*;

pub struct C09;

#[derive(Clone, Debug, Serialize, Deserialize, PartialEq)]
pub enum Case {
    /// an input string as is
    Raw { s: String },
    /// grammar-generated query, printed by the harness under `style`, then mutated at token level
    Gen { q: QSpec, style: u64, muts: Vec<Mut> },
    /// query built programmatically (Query::new + with_constraint/constrain + with_subquery ...)
    Built { q: QSpec },
}

fn msg_class(e: &StamError) -> String {
    let s = format!("{}", e);
    let s = match s.find("Malformed query: ") {
        Some(i) => s[i + "Malformed query: ".len()..].to_string(),
        None => s,
    };
    let mut out = String::new();
    let mut inq = false;
    let mut lastd = false;
    for c in s.chars() {
        if c == '\'' {
            if inq {
                out.push('…');
            }
            inq = !inq;
            out.push('\'');
            continue;
        }
        if inq {
            continue;
        }
        if c.is_ascii_digit() {
            if !lastd {
                out.push('N');
            }
            lastd = true;
            continue;
        }
        lastd = false;
        if c.is_whitespace() {
            out.push('_')
        } else if c == '|' {
            out.push('/')
        } else {
            out.push(c)
        }
    }
    if out.chars().count() > 60 {
        out = out.chars().take(60).collect();
    }
    out
}

/// Does the input get past the first keyword (query type + result type)?
fn past_first_keyword(s: &str) -> bool {
    let mut toks = s.split_whitespace().filter(|t| !t.starts_with('@'));
    match toks.next() {
        Some("SELECT") | Some("ADD") | Some("DELETE") => {}
        _ => return false,
    }
    let mut t = toks.next();
    if t == Some("OPTIONAL") {
        t = toks.next();
    }
    matches!(
        t.map(|x| x.to_ascii_uppercase()).as_deref(),
        Some("ANNOTATION") | Some("DATA") | Some("KEY") | Some("TEXT") | Some("RESOURCE") | Some("DATASET")
    ) && toks.next().is_some()
}

/// totality of both entry points on one string, then the round trip if it parsed
fn check_string(s: &str, out: &mut Outcome) {
    out.checks += 1;
    match catch(|| Query::try_from(s).map(|_| ())) {
        Ok(_) => {}
        Err(p) => out.fail(
            "total",
            p.signature(),
            format!("Query::try_from({:?}) panicked at {}:{}: {}", s, p.file, p.line, p.msg),
        ),
    }
    out.checks += 1;
    let parsed = match catch(|| Query::parse(s)) {
        Ok(r) => r,
        Err(p) => {
            out.fail(
                "total",
                p.signature(),
                format!("Query::parse({:?}) panicked at {}:{}: {}", s, p.file, p.line, p.msg),
            );
            out.nontrivial = true;
            return;
        }
    };
    match parsed {
        Err(_e) => {
            out.label("parse:err");

            if past_first_keyword(s) {
                out.label("parse:err-past-first-keyword");
                out.nontrivial = true;
            }
        }
        Ok((q, rem)) => {
            out.label("parse:ok");
            if !rem.trim().is_empty() {
                out.label("parse:ok-with-remainder");
            }
            if q.constraints().next().is_some() || q.assignments().next().is_some() || q.has_subqueries() {
                out.nontrivial = true;
            }
            roundtrip(&q, "parsed", out);
        }
    }
}

/// print -> parse -> compare -> print -> evaluate
pub fn roundtrip(q: &Query, origin: &str, out: &mut Outcome) {
    let d1 = match catch(|| dump_query(q)) {
        Ok(d) => d,
        Err(p) => {
            out.fail("total", p.signature(), format!("accessors of a {} query panicked: {}", origin, p.msg));
            return;
        }
    };
    let p1 = match catch(|| q.to_string()) {
        Err(p) => {
            out.fail(
                "print",
                p.signature(),
                format!("to_string() of {} query panicked at {}:{}: {} -- {:?}", origin, p.file, p.line, p.msg, d1),
            );
            return;
        }
        Ok(Err(_)) => {
            out.label("unprintable");
            return;
        }
        Ok(Ok(s)) => s,
    };
    out.label("printed");
    for l in feature_labels(&d1) {
        out.label(&format!("has:{}", l));
    }
    let odd = oddities(&d1);
    let feats = features(&d1);
    // helper: report or count as don't-care
    let report = |out: &mut Outcome, facet: &str, sig: String, detail: String| {
        out.checks += 1;
        if let Some(o) = odd.first() {
            out.dontcare += 1;
            out.label(&format!("dontcare:{}", o));
        } else {
            out.fail(facet, sig, detail);
        }
    };
    let reparsed = match catch(|| Query::parse(&p1)) {
        Ok(r) => r,
        Err(p) => {
            out.fail(
                "total",
                p.signature(),
                format!("Query::parse of printed query {:?} panicked at {}:{}: {}", p1, p.file, p.line, p.msg),
            );
            return;
        }
    };
    let (q2, rem) = match reparsed {
        Err(e) => {
            report(
                out,
                "reparse",
                format!("reparse-fails|{}|{}|{}", msg_class(&e), feats, origin),
                format!("printed {} query does not parse: {:?} -> {}", origin, p1, e),
            );
            return;
        }
        Ok(x) => x,
    };
    if !rem.trim().is_empty() {
        report(
            out,
            "reparse",
            format!("reparse-leftover|{}|{}", feats, origin),
            format!("printed {} query {:?} parses with leftover {:?}", origin, p1, rem),
        );
        return;
    }
    let d2 = dump_query(&q2);
    let diffs = diff_query(&d1, &d2);
    if !diffs.is_empty() {
        for d in &diffs {
            report(
                out,
                "structure",
                format!("print-loses|{}|{}", d, origin),
                format!("{} query printed as {:?} re-parses to a different structure ({}): before {:?} after {:?}", origin, p1, d, d1, d2),
            );
        }
        return;
    }
    out.checks += 1;
    match catch(|| q2.to_string()) {
        Ok(Ok(p2)) => {
            if p2 != p1 {
                report(
                    out,
                    "fixpoint",
                    format!("fixpoint|{}|{}", feats, origin),
                    format!("second print differs: first {:?} second {:?}", p1, p2),
                );
                return;
            }
        }
        Ok(Err(e)) => {
            report(
                out,
                "fixpoint",
                format!("fixpoint-unprintable|{}|{}", feats, origin),
                format!("re-parsed query cannot be printed: {:?} -> {}", p1, e),
            );
            return;
        }
        Err(p) => {
            out.fail("print", p.signature(), format!("to_string() of re-parsed query {:?} panicked: {}", p1, p.msg));
            return;
        }
    }
    out.label("roundtrip:ok");
    // meaning on the fixed store
    match compare_meaning(q, &q2, &d1) {
        Meaning::Same { nonempty } => {
            out.checks += 1;
            out.label("meaning:same");
            if nonempty {
                out.label("meaning:nonempty");
            }
            if out.labels.iter().any(|l| l == "coll") {
                out.label("coll:meaning-compared");
                if nonempty {
                    out.label("coll:meaning-nonempty");
                }
            }
        }
        Meaning::BothErr => {
            out.checks += 1;
            out.label("meaning:both-err");
        }
        Meaning::Skipped(why) => {
            out.dontcare += 1;
            let why: String = why.chars().take(90).collect();
            out.label(&format!("meaning:skipped-{}", why));
        }
        Meaning::Differ(detail) => {
            report(
                out,
                "meaning",
                format!("meaning|{}|{}", feats, origin),
                format!("query {:?} and its re-parse give different results on the fixed store: {}", p1, detail),
            );
        }
    }
}

/// which handle collections a built query carries (kind, size, qualifier)
fn collection_labels(q: &QSpec) -> Vec<String> {
    fn walk(c: &CSpec, out: &mut Vec<String>) {
        match c {
            CSpec::Coll { kind, picks, meta, depth } => {
                let n = coll_members(*kind, picks).len();
                let k = ["ANNOTATIONS", "DATA", "KEYS", "RESOURCES", "TEXTSELECTIONS"][*kind as usize % 5];
                out.push("coll".to_string());
                out.push(format!("coll:{}", k));
                out.push(format!("coll:size{}", n));
                out.push(format!("coll:{}", if *meta { "metadata" } else { "normal" }));
                if *kind % 5 == 0 {
                    out.push(format!("coll:depth{}", depth % 3));
                }
            }
            CSpec::Union(v) => v.iter().for_each(|x| walk(x, out)),
            _ => {}
        }
    }
    let mut out = vec![];
    for (_, c) in &q.cons {
        walk(c, &mut out);
    }
    for s in &q.subs {
        out.extend(collection_labels(s));
    }
    out.sort();
    out.dedup();
    out
}

impl Property for C09 {
    type Case = Case;
    fn id(&self) -> &'static str {
        "C09"
    }
    fn rule(&self) -> String {
        "case = Raw string | Gen (query spec from a typed STAMQL grammar: SELECT/ADD/DELETE, OPTIONAL, 6 result types, names, @attributes, all constraint keywords with qualifiers/RECURSIVE/OFFSET, data operators over string/int/float/datetime/null/any/bool/raw literals, unions nested <=2, LIMIT, sub-queries nested <=2 with siblings, assignments; printed by the harness under a style word, then 0-3 token mutations: delete/duplicate/swap/replace-by-hostile-literal/truncate/glue/insert multi-byte whitespace) | Built (same spec built with Query::new/with_constraint/constrain/with_subquery/with_qualifier; one leaf constraint in ten is a handle collection Constraint::Annotations / Data / Keys / Resources / TextSelections of 0-3 items of the fixed store, with and without AS METADATA, annotations with depth Zero/One/Max; plus dedicated SELECT queries whose first constraint is such a collection in a place where the engine evaluates it). Random strings: \\PC*, arbitrary chars, keyword soups. Enumerated: every keyword in 24 contexts, 45 canonical queries truncated at every character and with each token deleted, numeric literal battery x operator/LIMIT/OFFSET/assignment templates. Every string: Query::parse and TryFrom must not panic; every parsed or built+printable query: print, re-parse (Ok, nothing left), structural dump equal, second print equal, same results on a fixed store. Non-trivial = input gets past query type and result type (reaches constraint/assignment/sub-query parsing) or the query has >=1 constraint/assignment/sub-query; distinct = distinct case JSON.".into()
    }
    fn assumptions(&self) -> Vec<String> {
        vec![
            "built queries are only judged when they lie in the image of the grammar (strings representable in quotes, no '?'-prefixed ids, no reserved words AS/RECURSIVE/NONE as ids, no RECURSIVE without AS METADATA, no AnnotationDepth::Zero, no KeyValueVariable constraints, Equals strings that the lexer types as string); everything else is counted as dontcare:<reason>".into(),
            "parsed queries whose strings cannot be re-lexed (variable/query names containing whitespace or terminators, ids ending in a backslash) are don't-care: the documentation does not define quoting of variables or escapes other than \\\"".into(),
            "KeyValue{operator: Any} and DataKey are treated as the same structure (to_string canonicalises the former to the latter on purpose)".into(),
            "queries that to_string() rejects (Or/And/HasElement operators, non-finite floats, handle constraints) are outside the statement and counted as 'unprintable'".into(),
            "meaning facet: panics inside the query engine are C08's domain and counted as skipped; queries with an empty TEXT needle are not evaluated (find_text(\"\") does not terminate)".into(),
            "handle-collection constraints ('constrain by any of multiple ...') have the structure of the disjunction of the corresponding single constraints (ANNOTATION id / DATA set key = value / DATA set key / RESOURCE id / RESOURCE id OFFSET b e, with the collection's qualifier and depth): to_string() must return Err or text that re-parses to that disjunction and prints identically again. meaning is compared (as multisets: a collection and a disjunction may enumerate in a different order) only where the engine evaluates both forms - the collection is the first constraint of its level, outside a disjunction, the level has no sub-queries and no LIMIT, and (result type, kind, qualifier, depth) is implemented for the collection and for the printed disjunction (table transcribed from init_state_*, used to skip only); everything else is counted as meaning:skipped-collection-*".into(),
            "str inputs are valid UTF-8 by construction, so truncation is at every character boundary".into(),
        ]
    }
    fn cases(&self, tier: Tier) -> u64 {
        tier.pick(2_510_000, 16_730_000)
    }
    fn enumerate(&self, _tier: Tier) -> Vec<Case> {
        battery().into_iter().map(|s| Case::Raw { s }).collect()
    }
    fn strategy(&self, tier: Tier) -> BoxedStrategy<Case> {
        let depth = tier.pick(2, 3);
        prop_oneof![
            3 => raw_string().prop_map(|s| Case::Raw { s }),
            6 => soup().prop_map(|s| Case::Raw { s }),
            4 => (qspec(depth, true), any::<u64>()).prop_map(|(q, style)| Case::Gen { q, style, muts: vec![] }),
            5 => (qspec(depth, true), any::<u64>(), proptest::collection::vec(mutation(), 1..=3))
                .prop_map(|(q, style, muts)| Case::Gen { q, style, muts }),
            4 => qspec(depth, false).prop_map(|q| Case::Built { q }),
            // comes on top of the 2 400 000 / 16 000 000 cases of the other kinds (see cases())
            1 => collection_query().prop_map(|q| Case::Built { q }),
        ]
        .boxed()
    }

    fn run(&self, case: &Case) -> Outcome {
        let mut out = Outcome::new();
        match case {
            Case::Raw { s } => {
                out.label("raw");
                check_string(s, &mut out);
            }
            Case::Gen { q, style, muts } => {
                let mut toks = print_spec(q, *style);
                let mut truncate = None;
                for m in muts {
                    apply_mutation(&mut toks, m, &mut truncate);
                }
                let mut s = join_tokens(&toks);
                if let Some(t) = truncate {
                    let n = s.chars().count();
                    let keep = pick(t, n + 1);
                    s = s.chars().take(keep).collect();
                }
                if muts.is_empty() {
                    out.label("gen");
                } else {
                    out.label("gen+mut");
                }
                check_string(&s, &mut out);
                if muts.is_empty() {
                    // generator health only: how many unmutated grammar products parse
                    if out.labels.iter().any(|l| l == "parse:ok") {
                        out.label("gen:parse-ok");
                    } else {
                        out.label("gen:parse-err");

                    }
                }
            }
            Case::Built { q } => {
                out.label("built");
                for l in collection_labels(q) {
                    out.label(&l);
                }
                let outside = outside_grammar(q);
                let built = match catch(|| build_query(q)) {
                    Ok(b) => b,
                    Err(p) => {
                        out.fail("total", p.signature(), format!("building the query panicked: {}", p.msg));
                        return out;
                    }
                };
                out.nontrivial = !q.cons.is_empty() || !q.subs.is_empty();
                if let Some(why) = outside.first() {
                    // still must not panic when printed / re-parsed, but the comparison is don't-care
                    out.label(&format!("dontcare:outside-grammar:{}", why));
                    out.dontcare += 1;
                    match catch(|| built.to_string()) {
                        Err(p) => out.fail("print", p.signature(), format!("to_string() of built query panicked: {} -- {:?}", p.msg, q)),
                        Ok(Ok(p1)) => {
                            if let Err(p) = catch(|| Query::parse(&p1).map(|_| ())) {
                                out.fail("total", p.signature(), format!("Query::parse of printed query {:?} panicked: {}", p1, p.msg));
                            }
                        }
                        Ok(Err(_)) => out.label("unprintable"),
                    }
                } else {
                    roundtrip(&built, "built", &mut out);
                }
            }
        }
        // development aid: C09_SURVEY=<file> appends every failure to that file and lets the run continue
        if let Ok(path) = std::env::var("C09_SURVEY") {
            use std::io::Write;
            if let Ok(mut f) = std::fs::OpenOptions::new().create(true).append(true).open(path) {
                for x in &out.failures {
                    let _ = writeln!(f, "{}\t{}\t{}", x.facet, x.signature, x.detail.replace('\n', " "));
                }
            }
            out.failures.clear();
            out.label("survey_mode");
        }
        out
    }

    fn health(&self, labels: &BTreeMap<String, u64>, evals: u64) -> Vec<String> {
        let mut v = vec![];
        if evals < 20_000 {
            return v;
        }
        let get = |k: &str| labels.get(k).copied().unwrap_or(0);
        if get("survey_mode") > 0 {
            v.push("C09_SURVEY is set: failures were diverted to that file, this run decides nothing".into());
        }
        let gen = get("gen");
        if gen > 0 && get("gen:parse-ok") * 100 < gen * 70 {
            v.push(format!("only {} of {} unmutated grammar products parse", get("gen:parse-ok"), gen));
        }
        if get("roundtrip:ok") * 100 < evals * 10 {
            v.push(format!("only {} of {} cases reach a complete round trip", get("roundtrip:ok"), evals));
        }
        for k in [
            "has:ID", "has:ANNOTATION", "has:RESOURCE", "has:DATASET", "has:DATA", "has:VALUE", "has:KEY", "has:TEXT",
            "has:RELATION", "has:SUBSTORE", "has:UNION", "has:LIMIT", "has:subquery", "has:subquery-siblings", "has:OPTIONAL",
            "has:meta", "has:offset", "has:assignment", "has:attributes", "has:float", "has:datetime", "has:escape", "coll:ANNOTATIONS", "coll:DATA",
            "coll:KEYS", "coll:RESOURCES", "coll:TEXTSELECTIONS", "coll:size0", "coll:size1", "coll:size2", "coll:size3", "coll:metadata",
            "coll:meaning-nonempty",
        ] {
            if get(k) * 1000 < evals {
                v.push(format!("label {} seen in only {} of {} cases", k, get(k), evals));
            }
        }
        v
    }
}
