//! C11 CBOR round trip preserves the store and all of its indices.

use crate::engine::*;
use crate::hist::*;
use crate::observe::*;
use crate::props::c05::{final_store, TempDir};
use proptest::prelude::*;
use serde::{Deserialize, Serialize};
use stam::*;

pub struct C11;

#[derive(Clone, Debug, Serialize, Deserialize)]
pub struct Case {
    pub hist: History,
    /// load with a non-default configuration (shrink_to_fit)
    pub shrink: bool,
    /// milestone interval of the store that is saved
    pub milestone: u8,
    /// milestone interval of the configuration the file is loaded with (0 = the same as when saving): a
    /// performance-only setting, and the indices come from the file, so it must not change anything
    #[serde(default)]
    pub load_milestone: u8,
    /// the store has a working directory and is saved and loaded under a relative file name
    #[serde(default)]
    pub relative: bool,
}

/// a battery of searches / queries whose answers must be identical before and after
fn battery(store: &AnnotationStore) -> Vec<String> {
    let mut v = vec![];
    for r in store.resources() {
        let t: Vec<String> = r.find_text("a").map(|t| format!("{}-{}", t.begin(), t.end())).collect();
        v.push(format!("find_text(a)@{}={:?}", r.handle().as_usize(), t));
        let t: Vec<String> = r.find_text(" ").map(|t| format!("{}-{}", t.begin(), t.end())).collect();
        v.push(format!("find_text( )@{}={:?}", r.handle().as_usize(), t));
        let n = r.text().chars().count();
        let conv: Vec<String> = (0..=n)
            .map(|p| format!("{:?}", r.utf8byte(p).ok().map(|b| (b, r.utf8byte_to_charpos(b).ok()))))
            .collect();
        v.push(format!("utf8@{}={:?}", r.handle().as_usize(), conv));
        let pos: Vec<usize> = r.as_ref().positions(PositionMode::Both).copied().collect();
        v.push(format!("positions@{}={:?}", r.handle().as_usize(), pos));
        v.push(format!("byte2char@{}={:?}", r.handle().as_usize(), r.as_ref().verif_byte2charmap()));
        let seg: Vec<String> = r.segmentation().map(|t| format!("{}-{}", t.begin(), t.end())).collect();
        v.push(format!("segmentation@{}={:?}", r.handle().as_usize(), seg));
        for ts in r.textselections().take(6) {
            for op in [
                TextSelectionOperator::overlaps(),
                TextSelectionOperator::embeds(),
                TextSelectionOperator::embedded(),
                TextSelectionOperator::before(),
                TextSelectionOperator::after(),
                TextSelectionOperator::precedes(),
                TextSelectionOperator::succeeds(),
                TextSelectionOperator::samebegin(),
            ] {
                let rel: Vec<String> = ts.related_text(op).map(|t| format!("{}-{}", t.begin(), t.end())).collect();
                v.push(format!("related({})@{}:{}-{}={:?}", op.as_str(), r.handle().as_usize(), ts.begin(), ts.end(), rel));
            }
        }
    }
    // sizes of the underlying stores (handles of future items depend on them) and temporary-id lookups
    v.push(format!("lens={:?}", (store.annotations_len(), store.resources_len(), store.datasets_len())));
    for i in 0..store.annotations_len().min(12) {
        let id = format!("!A{}", i);
        v.push(format!("annotation({})={:?}", id, store.annotation(id.as_str()).map(|a| a.handle().as_usize())));
    }
    for i in 0..store.resources_len().min(6) {
        let id = format!("!R{}", i);
        v.push(format!("resource({})={:?}", id, store.resource(id.as_str()).map(|a| a.handle().as_usize())));
    }
    for s in store.datasets() {
        let id = format!("!S{}", s.handle().as_usize());
        v.push(format!("dataset({})={:?}", id, store.dataset(id.as_str()).map(|a| a.handle().as_usize())));
        for i in 0..s.as_ref().data_len().min(8) {
            let id = format!("!D{}", i);
            v.push(format!("data({},{})={:?}", s.handle().as_usize(), id, s.annotationdata(id.as_str()).map(|a| a.handle().as_usize())));
        }
        for i in 0..s.as_ref().keys_len().min(8) {
            let id = format!("!K{}", i);
            v.push(format!("key({},{})={:?}", s.handle().as_usize(), id, s.key(id.as_str()).map(|a| a.handle().as_usize())));
        }
    }
    let d: Vec<(usize, usize)> = store
        .find_data(false, false, DataOperator::Any)
        .map(|d| (d.set().handle().as_usize(), d.handle().as_usize()))
        .collect();
    v.push(format!("find_data(any)={:?}", d));
    let d: Vec<(usize, usize)> = store
        .find_data(false, false, DataOperator::Equals("noun".into()))
        .map(|d| (d.set().handle().as_usize(), d.handle().as_usize()))
        .collect();
    v.push(format!("find_data(noun)={:?}", d));
    for q in [
        "SELECT ANNOTATION ?a",
        "SELECT DATA ?d",
        "SELECT TEXT ?t",
        "SELECT RESOURCE ?r",
        "SELECT ANNOTATION ?a WHERE DATA \"s2\" \"pos\";",
        "SELECT ANNOTATION ?a WHERE TEXT \"a\";",
    ] {
        let res: Result<Vec<String>, String> = (|| {
            let query: Query = q.try_into().map_err(|e: StamError| format!("{}", e))?;
            let mut out = vec![];
            for r in store.query(query).map_err(|e| format!("{}", e))? {
                for item in r.iter() {
                    out.push(match item {
                        QueryResultItem::Annotation(a) => format!("A{}", a.handle().as_usize()),
                        QueryResultItem::AnnotationData(d) => format!("D{}.{}", d.set().handle().as_usize(), d.handle().as_usize()),
                        QueryResultItem::TextSelection(t) => format!("T{}:{}-{}", t.resource().handle().as_usize(), t.begin(), t.end()),
                        QueryResultItem::TextResource(r) => format!("R{}", r.handle().as_usize()),
                        _ => "?".to_string(),
                    });
                }
            }
            Ok(out)
        })();
        v.push(format!("{} => {:?}", q, res));
    }
    v
}

impl Property for C11 {
    type Case = Case;
    fn id(&self) -> &'static str {
        "C11"
    }
    fn rule(&self) -> String {
        "case = final store of a C01 history (removals, text protection, complex selectors, milestone interval 0/1/3/100) saved with a .cbor name (absolute, or relative to the store's working directory) and loaded again (default config or shrink_to_fit, the same or another milestone interval). Oracle: the complete observation with handles (all items, forward views, every reverse lookup) is equal; the raw dump of every reverse index, id map, key->data map, position index and byte->char map is equal entry by entry; the reloaded store passes the C01 self-consistency battery; a battery of searches and queries (find_text, byte/char conversion, positions, segmentation, related_text under 8 operators, find_data, 6 queries) gives identical answers; a second save/load generation yields the same observation (byte identity of the file is not required: id maps are hash maps). Non-trivial = the store has a gap or was text-protected, and has at least one complex selector; distinct = distinct case JSON.".into()
    }
    fn cases(&self, tier: Tier) -> u64 {
        tier.pick(500_000, 4_000_000)
    }
    fn strategy(&self, tier: Tier) -> BoxedStrategy<Case> {
        let cfg = HistCfg {
            max_ops: tier.pick(18, 45),
            text_max: 20,
            removal_weight: 3,
            protect_weight: 2,
            complex_weight: 3,
            ..HistCfg::default()
        };
        (history_strategy(cfg), any::<bool>(), 0u8..4, prop_oneof![3 => Just(0u8), 4 => 1u8..6], proptest::bool::weighted(0.3))
            .prop_map(|(hist, shrink, milestone, load_milestone, relative)| Case { hist, shrink, milestone, load_milestone, relative })
            .boxed()
    }

    fn run(&self, case: &Case) -> Outcome {
        let mut out = Outcome::new();
        // build with the requested milestone interval
        let interval = [0usize, 1, 3, 100][case.milestone as usize % 4];
        let dir = TempDir::new("c11");
        let workdir = dir.0.to_string_lossy().to_string();
        let build_cfg = if case.relative {
            out.label("relative_filename_in_workdir");
            Config::default().with_milestone_interval(interval).with_workdir(workdir.clone())
        } else {
            Config::default().with_milestone_interval(interval)
        };
        let mut m = Machine::with_config(case.hist.hostile, build_cfg);
        for op in &case.hist.ops {
            let s = m.apply(op);
            if s.skipped.is_some() {
                continue;
            }
            if s.panic.is_some() || s.result.is_err() || s.mismatch.is_some() {
                out.label("stopped_at_foreign_divergence");
                return out;
            }
            if op.is_removal() {
                out.label("has_gap");
            }
            if matches!(op, Op::ProtectText { .. }) {
                out.label("protected");
            }
        }
        let _ = final_store;
        let mut store = m.store;
        let before = match catch(|| (observe(&store), battery(&store), store.verif_dump())) {
            Ok(x) => x,
            Err(_) => {
                out.label("stopped_at_foreign_divergence");
                return out;
            }
        };
        let (obs, bat, dump) = before;
        if obs.anns.iter().any(|a| a.target.is_complex()) {
            out.label("complex_selector");
            if out.labels.iter().any(|l| l == "has_gap" || l == "protected") {
                out.nontrivial = true;
            }
        }
        if obs.anns.iter().any(|a| a.ranged) {
            out.label("range_compressed");
        }
        let set_dumps: Vec<_> = store.datasets().map(|d| d.as_ref().verif_dump()).collect();
        let f = if case.relative { "x.store.stam.cbor".to_string() } else { dir.path("x.store.stam.cbor") };
        match catch(|| store.to_file(&f)) {
            Ok(Ok(())) => {}
            Ok(Err(e)) => {
                out.fail("save", "err", format!("saving as CBOR failed: {}", e));
                return out;
            }
            Err(p) => {
                out.fail("save", p.signature(), format!("saving as CBOR panicked at {}:{}: {}", p.file, p.line, p.msg));
                return out;
            }
        }
        let mut cfg = if case.shrink { Config::default().with_shrink_to_fit(true) } else { Config::default() };
        out.label(if case.shrink { "load_shrink" } else { "load_default" });
        if case.load_milestone > 0 {
            let li = [1usize, 2, 3, 7, 0][(case.load_milestone as usize - 1) % 5];
            cfg = cfg.with_milestone_interval(li);
            out.label("load_other_milestone_interval");
        } else {
            cfg = cfg.with_milestone_interval(interval);
        }
        if case.relative {
            cfg = cfg.with_workdir(workdir.clone());
            if !std::path::Path::new(&dir.path("x.store.stam.cbor")).exists() {
                out.fail("save", "relative-name-not-in-workdir", format!("to_file(\"x.store.stam.cbor\") on a store with working directory {} did not write the file there", workdir));
                let _ = std::fs::remove_file("x.store.stam.cbor");
                return out;
            }
        }
        let store2 = match catch(|| AnnotationStore::from_file(&f, cfg)) {
            Ok(Ok(s)) => s,
            Ok(Err(e)) => {
                out.fail("load", "err", format!("loading the saved CBOR failed: {}", e));
                return out;
            }
            Err(p) => {
                out.fail("load", p.signature(), format!("loading the saved CBOR panicked at {}:{}: {}", p.file, p.line, p.msg));
                return out;
            }
        };
        let after = match catch(|| (observe(&store2), battery(&store2), store2.verif_dump())) {
            Ok(x) => x,
            Err(p) => {
                out.fail("load", format!("traverse|{}", p.signature()), format!("traversing the loaded store panicked at {}:{}: {}", p.file, p.line, p.msg));
                return out;
            }
        };
        let (obs2, bat2, dump2) = after;
        out.checks += 4;
        if obs != obs2 {
            // find the first differing part
            let what = if obs.resources != obs2.resources {
                "resources"
            } else if obs.sets != obs2.sets {
                "datasets"
            } else if obs.anns != obs2.anns {
                "annotations"
            } else {
                "index_totalcount"
            };
            let detail = match what {
                "resources" => format!("{:?} vs {:?}", obs.resources, obs2.resources),
                "datasets" => format!("{:?} vs {:?}", obs.sets, obs2.sets),
                "annotations" => format!("{:?} vs {:?}", obs.anns, obs2.anns),
                _ => format!("{:?} vs {:?}", obs.index_totalcount, obs2.index_totalcount),
            };
            out.fail("observation", what, format!("the loaded store answers differently: {}", detail));
        }
        if dump != dump2 {
            let which = [
                ("dataset_data_annotation_map", dump.dataset_data_annotation_map != dump2.dataset_data_annotation_map),
                ("textrelationmap", dump.textrelationmap != dump2.textrelationmap),
                ("resource_annotation_metamap", dump.resource_annotation_metamap != dump2.resource_annotation_metamap),
                ("dataset_annotation_metamap", dump.dataset_annotation_metamap != dump2.dataset_annotation_metamap),
                ("annotation_annotation_map", dump.annotation_annotation_map != dump2.annotation_annotation_map),
                ("key_annotation_metamap", dump.key_annotation_metamap != dump2.key_annotation_metamap),
                ("data_annotation_metamap", dump.data_annotation_metamap != dump2.data_annotation_metamap),
                ("annotation_idmap", dump.annotation_idmap != dump2.annotation_idmap),
                ("resource_idmap", dump.resource_idmap != dump2.resource_idmap),
                ("dataset_idmap", dump.dataset_idmap != dump2.dataset_idmap),
            ];
            for (name, differs) in which {
                if differs {
                    out.fail("index", name, format!("index {} differs after the round trip: {:?} vs {:?}", name, dump, dump2));
                }
            }
            if out.failures.is_empty() {
                out.fail("index", "other", "index dump differs".to_string());
            }
        }
        let set_dumps2: Vec<_> = store2.datasets().map(|d| d.as_ref().verif_dump()).collect();
        if set_dumps != set_dumps2 {
            out.fail("index", "dataset-maps", format!("dataset id maps / key->data maps differ: {:?} vs {:?}", set_dumps, set_dumps2));
        }
        if bat != bat2 {
            let first = bat.iter().zip(bat2.iter()).find(|(a, b)| a != b);
            let name = first.map(|(a, _)| a.split(|c| c == '@' || c == '=').next().unwrap_or("?").to_string()).unwrap_or_default();
            out.fail("battery", name.replace(' ', "_"), format!("a search answers differently after the round trip: {:?}", first));
        }
        if !out.failures.is_empty() {
            return out;
        }
        // self-consistency of the loaded store (position index vs text selections etc.)
        let mut sc = crate::hcheck::StepCheck {
            findings: vec![],
            diverged: false,
            obs: None,
            checks: 0,
        };
        if catch(|| crate::hcheck::check_consistency(&store2, &obs2, &mut sc, None)).is_ok() {
            out.checks += sc.checks;
            for fnd in sc.findings {
                out.fail(&format!("loaded.{}", fnd.failure.facet), fnd.failure.signature, fnd.failure.detail);
            }
        }
        // the loaded store must also *continue* like the original: the same additional annotation gets the same handle
        // and leaves both stores in the same observable state
        let mut store2 = store2;
        {
            let first_res = obs.resources.first().map(|r| r.handle);
            if let Some(rh) = first_res {
                let mk = || {
                    AnnotationBuilder::new()
                        .with_target(SelectorBuilder::TextSelector(BuildItem::Handle(TextResourceHandle::new(rh)), Offset::whole()))
                        .with_data("c11-extra-set", "c11-key", "c11-value")
                };
                let h1 = catch(|| store.annotate(mk()).map(|h| h.as_usize()).map_err(|e| format!("{}", e)));
                let h2 = catch(|| store2.annotate(mk()).map(|h| h.as_usize()).map_err(|e| format!("{}", e)));
                out.checks += 1;
                match (h1, h2) {
                    (Ok(a), Ok(b)) => {
                        if a != b {
                            out.fail("continue", "handle", format!("annotating the original gives {:?}, annotating the loaded store gives {:?}", a, b));
                        } else if let (Ok(o1), Ok(o2)) = (catch(|| observe(&store)), catch(|| observe(&store2))) {
                            if o1 != o2 {
                                out.fail("continue", "observation", "after the same additional annotation the loaded store differs from the original".to_string());
                            }
                        }
                    }
                    (Err(p), _) | (_, Err(p)) => out.fail("continue", p.signature(), format!("annotating after the round trip panicked: {}", p.msg)),
                }
            }
        }
        if !out.failures.is_empty() {
            return out;
        }
        let obs2 = match catch(|| observe(&store2)) {
            Ok(o) => o,
            Err(_) => return out,
        };
        // second generation: saving the loaded store and loading that again must give the same store
        // (byte identity is NOT required: id maps are hash maps whose iteration order differs per instance)
        let f2 = dir.path("y.store.stam.cbor");
        match catch(|| store2.to_file(&f2)) {
            Ok(Ok(())) => match catch(|| AnnotationStore::from_file(&f2, Config::default())) {
                Ok(Ok(store3)) => {
                    out.checks += 1;
                    match catch(|| observe(&store3)) {
                        Ok(obs3) => {
                            if obs3 != obs2 {
                                out.fail("second-generation", "observation", "the store differs after a second save/load cycle".to_string());
                            }
                        }
                        Err(p) => out.fail("second-generation", p.signature(), format!("traversing the second-generation store panicked: {}", p.msg)),
                    }
                }
                Ok(Err(e)) => out.fail("second-generation", "load-err", format!("loading the second save failed: {}", e)),
                Err(p) => out.fail("second-generation", p.signature(), format!("loading the second save panicked: {}", p.msg)),
            },
            Ok(Err(e)) => out.fail("second-generation", "save-err", format!("second save failed: {}", e)),
            Err(p) => out.fail("second-generation", p.signature(), format!("second save panicked: {}", p.msg)),
        }
        out
    }
}
