//! C06 Related-text search returns exactly the selections in the relation.
//!
//! A case is a text, a set of known text selections on it (each created by an annotation, some of
//! which are removed again), and a reference (bound selection, unbound selection, annotation with
//! 1-3 selections, explicit TextSelectionSet). Every case is evaluated under every
//! operator/modifier combination through every entry point that accepts the reference, and the
//! answer is compared with a brute-force scan over all known selections using the
//! interval-arithmetic relation definitions of `crate::rel` (three-valued).
//!
//! Signatures: `[union:|sortedset:]<operator sig>|ref=<half(s)>[+multi][+zw]|<geometric class of the wrong candidate>`.
//!
//! On the pinned tree the check fires at once; the root causes found (all in FindTextSelectionsIter unless noted)
//! are repaired by /verif/proposed_fixes/C06-01..08 (witnesses in /verif/findings/C06/):
//! 01 negated operators only searched near the reference; 02 Equals{all} never returned the reference;
//! 03 half-open search ranges dropped the last position (zero-width at range end, anything ending at the end
//! of the text when walking backwards, limit off by one); 04 After{limit} windowed the begin instead of the end;
//! 05 Overlaps from the second half started at ref.end; 06 Succeeds+whitespace looked after the reference;
//! 07 duplicates for multi-member references and results not in textual order; 08 TextSelectionSet::rightmost()
//! on a sorted set. The check is silent only with these applied.

use crate::engine::*;
use crate::rel::{self, Op, Rel, R};
use proptest::prelude::*;
use serde::{Deserialize, Serialize};
use stam::*;
use std::collections::BTreeMap;

pub struct C06;

/// stam's (private) `WHITESPACE_LIMIT`: "a limited amount of whitespace is allowed"
pub const WHITESPACE_LIMIT: usize = 10;
pub const LIMITS: [Option<usize>; 5] = [None, Some(0), Some(1), Some(3), Some(10)];

#[derive(Clone, Debug, Serialize, Deserialize, PartialEq, Eq)]
pub struct KnownSel {
    pub b: u8,
    pub e: u8,
    /// the annotation that created the selection is removed again (the selection stays known)
    #[serde(default)]
    pub removed: bool,
}

#[derive(Clone, Debug, Serialize, Deserialize, PartialEq, Eq)]
pub enum RefSpec {
    /// a single text selection; it is bound iff its offsets are among the known selections
    Selection { b: u8, e: u8 },
    /// an extra annotation over these (distinct) offsets; its selections are known too. With more than one
    /// offset the selector is a MultiSelector (complex%3==0), CompositeSelector (1) or DirectionalSelector (2)
    Annotation {
        sels: Vec<(u8, u8)>,
        #[serde(default)]
        complex: u8,
    },
    /// an explicit TextSelectionSet over these (distinct) offsets, members bound iff known;
    /// `sorted`: TextSelectionSet::sort() is called on it before use
    Set {
        sels: Vec<(u8, u8)>,
        #[serde(default)]
        sorted: bool,
    },
}

#[derive(Clone, Debug, Serialize, Deserialize)]
pub struct Case {
    pub text: String,
    pub known: Vec<KnownSel>,
    pub reference: RefSpec,
    /// restrict the evaluation to one operator (used by hand-minimised witnesses); None = all combinations
    #[serde(default)]
    pub only: Option<Op>,
}

// ------------------------------------------------------------------------------------------
// generator

const WORDCHARS: [char; 8] = ['a', 'b', 'é', 'ß', '字', '😀', 'x', 'Ж'];
const WSCHARS: [char; 5] = [' ', ' ', '\t', '\n', '\u{3000}'];

/// segments -> text of at most `maxlen` codepoints
fn build_text(segs: &[(u8, u8)], ascii: bool, maxlen: usize) -> String {
    let mut s = String::new();
    let mut n = 0usize;
    for (i, (kind, len)) in segs.iter().enumerate() {
        let (ws, len) = match kind % 10 {
            0..=5 => (false, 1 + (*len as usize % 5)),
            6..=8 => (true, 1 + (*len as usize % 4)),
            _ => (true, 9 + (*len as usize % 5)), // run longer than / around the whitespace limit
        };
        for j in 0..len {
            if n >= maxlen {
                return s;
            }
            let c = if ws {
                if ascii {
                    ' '
                } else {
                    WSCHARS[(i + j + *kind as usize) % WSCHARS.len()]
                }
            } else if ascii {
                (b'a' + ((i * 3 + j) % 26) as u8) as char
            } else {
                WORDCHARS[(i * 3 + j + *kind as usize) % WORDCHARS.len()]
            };
            s.push(c);
            n += 1;
        }
    }
    s
}

/// geometry: resolve (mode, x, y) against the anchors on a text of n codepoints
fn resolve(mode: u8, x: u16, y: u16, n: usize, anchors: &[usize]) -> (u8, u8) {
    let a = |i: u16| anchors[pick(i, anchors.len())];
    let (b, e) = match mode % 10 {
        0 | 1 | 2 => {
            // both ends on anchors: shared boundaries, nesting, adjacency, crossing
            let (p, q) = (a(x), a(y));
            if p == q {
                (p, (p + 1 + (y as usize % 3)).min(n))
            } else {
                (p.min(q), p.max(q))
            }
        }
        3 => {
            // begins on an anchor, short (0..3)
            let b = a(x);
            (b, (b + pick(y, 4)).min(n))
        }
        4 => {
            // ends on an anchor, short (0..3)
            let e = a(x);
            (e.saturating_sub(pick(y, 4)), e)
        }
        5 => {
            // zero-width on an anchor
            let p = a(x);
            (p, p)
        }
        6 => {
            // touches the very end of the text
            (pick(x, n + 1), n)
        }
        7 => {
            // zero-width anywhere
            let p = pick(x, n + 1);
            (p, p)
        }
        8 => {
            // straddles an anchor: crosses whatever begins or ends there
            let p = a(x);
            (p.saturating_sub(1 + pick(y, 3)), (p + 1 + (y as usize % 3)).min(n))
        }
        _ => {
            let (p, q) = (pick(x, n + 1), pick(y, n + 1));
            (p.min(q), p.max(q))
        }
    };
    (b as u8, e as u8)
}

type RawSel = (u8, u16, u16);

fn raw_case(
    segs: Vec<(u8, u8)>,
    ascii: bool,
    anchors: Vec<u16>,
    sels: Vec<(RawSel, bool)>,
    refkind: u8,
    refsels: Vec<(RawSel, bool, u16)>,
    maxlen: usize,
) -> Case {
    let text = build_text(&segs, ascii, maxlen);
    let n = text.chars().count();
    let mut anch: Vec<usize> = anchors.iter().map(|i| pick(*i, n + 1)).collect();
    anch.push(n);
    anch.sort();
    anch.dedup();
    let known: Vec<KnownSel> = sels
        .iter()
        .map(|((m, x, y), removed)| {
            let (b, e) = resolve(*m, *x, *y, n, &anch);
            KnownSel { b, e, removed: *removed }
        })
        .collect();
    // members of the reference: either one of the known selections or fresh geometry
    let mut members: Vec<(u8, u8)> = vec![];
    for ((m, x, y), from_known, k) in &refsels {
        let r = if *from_known && !known.is_empty() {
            let ks = &known[pick(*k, known.len())];
            (ks.b, ks.e)
        } else {
            resolve(*m, *x, *y, n, &anch)
        };
        if !members.contains(&r) {
            members.push(r);
        }
    }
    let reference = match refkind % 8 {
        0 | 1 | 2 => RefSpec::Selection { b: members[0].0, e: members[0].1 },
        3 | 4 | 5 => RefSpec::Annotation { sels: members, complex: refkind / 8 },
        6 => RefSpec::Set { sels: members, sorted: false },
        _ => RefSpec::Set { sels: members, sorted: true },
    };
    Case { text, known, reference, only: None }
}

fn rawsel() -> impl Strategy<Value = RawSel> {
    (any::<u8>(), any::<u16>(), any::<u16>())
}

// ------------------------------------------------------------------------------------------
// oracle

fn pos(op: &Op) -> Op {
    Op { negate: false, ..*op }
}

/// is the pair (a, c) in the documented fuzzy zone of Precedes/Succeeds with allow_whitespace:
/// an all-whitespace gap longer than the library's limit?
fn ws_fuzzy(op: &Op, a: R, c: R, text: &[char]) -> bool {
    if !(op.has_ws() && op.ws) {
        return false;
    }
    let (from, to) = if op.rel == Rel::Precedes { (a.1, c.0) } else { (c.1, a.0) };
    to > from && to - from > WHITESPACE_LIMIT && rel::pair_pos(&pos(op), a, c, text) == Some(true)
}

/// `refs OP {c}` for a candidate that is not a member of the reference, negation included
fn expect_nonmember(op: &Op, refs: &[R], c: R, text: &[char], embeds_documented: bool) -> Option<bool> {
    if op.has_ws() && op.ws {
        if !op.all {
            if refs.iter().any(|a| ws_fuzzy(op, *a, c, text)) {
                // every a must relate to c: a definite 'no' from another member still decides
                return if refs
                    .iter()
                    .any(|a| rel::pair_pos(&pos(op), *a, c, text) == Some(false))
                {
                    Some(op.negate)
                } else {
                    None
                };
            }
        } else {
            let max_ae = refs.iter().map(|x| x.1).max().unwrap();
            let min_ab = refs.iter().map(|x| x.0).min().unwrap();
            let (a, cc) = if op.rel == Rel::Precedes {
                ((max_ae, max_ae), (c.0, c.0))
            } else {
                ((min_ab, min_ab), (c.1, c.1))
            };
            if ws_fuzzy(op, a, cc, text) {
                return None;
            }
        }
    }
    rel::sets(op, refs, &[c], text, embeds_documented)
}

/// Three-valued expectation for candidate `c` (a known selection) given the reference set.
fn expect(op: &Op, refs: &[R], refs_all_known: bool, c: R, text: &[char]) -> Option<bool> {
    if refs.contains(&c) {
        // the reference itself: only the (positive) equality relation returns it
        if op.rel == Rel::Equals && !op.negate {
            if refs.len() == 1 {
                Some(true)
            } else if !op.all && refs_all_known {
                Some(true)
            } else {
                None
            }
        } else {
            Some(false)
        }
    } else {
        let d = expect_nonmember(op, refs, c, text, true);
        let i = expect_nonmember(op, refs, c, text, false);
        if d == i {
            d
        } else {
            None // documented and implemented quantifier shape of Embeds disagree (known finding of C13)
        }
    }
}

/// expectation for the "each selection separately" form (TextSelectionIterator::related_text, used by the
/// RELATION constraint with an annotation variable): related to ANY member, the member itself only under Equals
fn expect_union(op: &Op, refs: &[R], c: R, text: &[char]) -> Option<bool> {
    let mut unknown = false;
    for r in refs {
        let v = if *r == c {
            Some(op.rel == Rel::Equals && !op.negate)
        } else {
            expect_nonmember(op, &[*r], c, text, true)
        };
        match v {
            Some(true) => return Some(true),
            None => unknown = true,
            Some(false) => {}
        }
    }
    if unknown {
        None
    } else {
        Some(false)
    }
}

/// geometric class of a (wrongly handled) candidate relative to the hull of the reference
fn class(c: R, refs: &[R], n: usize, op: &Op, text: &[char]) -> String {
    let hb = refs.iter().map(|x| x.0).min().unwrap();
    let he = refs.iter().map(|x| x.1).max().unwrap();
    let mut s = String::new();
    let zw = c.0 == c.1;
    if refs.contains(&c) {
        s.push_str("reference_itself");
    } else if zw {
        s.push_str(if c.0 < hb {
            "zw_before"
        } else if c.0 == hb {
            "zw_at_ref_begin"
        } else if c.0 < he {
            "zw_inside"
        } else if c.0 == he {
            "zw_at_ref_end"
        } else {
            "zw_after"
        });
    } else if c.1 <= hb {
        s.push_str(if c.1 == hb {
            "before_adjacent"
        } else if text[c.1..hb].iter().all(|x| x.is_whitespace()) {
            "before_separated_by_whitespace"
        } else {
            "before"
        });
    } else if c.0 >= he {
        s.push_str(if c.0 == he {
            "after_adjacent"
        } else if text[he..c.0].iter().all(|x| x.is_whitespace()) {
            "after_separated_by_whitespace"
        } else {
            "after"
        });
    } else if c.0 >= hb && c.1 <= he {
        s.push_str("inside_ref");
    } else if c.0 <= hb && c.1 >= he {
        s.push_str("contains_ref");
    } else if c.0 < hb {
        s.push_str("ends_inside_ref");
    } else {
        s.push_str("begins_inside_ref");
    }
    if c.1 == n {
        s.push_str("+ends_at_textlen");
    }
    if let (true, Some(l)) = (op.has_limit(), op.limit) {
        if c.0 < hb.saturating_sub(l) {
            s.push_str("+begins_before_limit_window");
        }
        if c.1 > he + l {
            s.push_str("+ends_after_limit_window");
        }
    }
    s
}

fn refclass(refs: &[R], n: usize) -> String {
    let halfway = n / 2;
    let first = refs.iter().any(|r| r.0 <= halfway);
    let second = refs.iter().any(|r| r.0 > halfway);
    let mut s = String::from(match (first, second) {
        (true, false) => "first_half",
        (false, true) => "second_half",
        _ => "both_halves",
    });
    if refs.len() > 1 {
        s.push_str("+multi");
    }
    if refs.iter().any(|r| r.0 == r.1) {
        s.push_str("+zw");
    }
    s
}

fn query_keyword(op: &Op) -> Option<&'static str> {
    // the STAMQL keywords stand for the default-constructed operators (precedes()/succeeds() allow whitespace)
    if op.all || op.negate || op.limit.is_some() {
        return None;
    }
    Some(match op.rel {
        Rel::Equals => "EQUALS",
        Rel::Overlaps => "OVERLAPS",
        Rel::Embeds => "EMBEDS",
        Rel::Embedded => "EMBEDDED",
        Rel::Before => "BEFORE",
        Rel::After => "AFTER",
        Rel::Precedes if op.ws => "PRECEDES",
        Rel::Succeeds if op.ws => "SUCCEEDS",
        Rel::SameBegin => "SAMEBEGIN",
        Rel::SameEnd => "SAMEEND",
        _ => return None,
    })
}

pub fn c06_ops() -> Vec<Op> {
    rel::all_ops(&LIMITS)
        .into_iter()
        .filter(|o| !matches!(o.rel, Rel::InSet | Rel::SameRange))
        .collect()
}

/// one observed answer
struct Answer {
    entry: &'static str,
    /// (begin, end, bound selection of the resource under test?)
    items: Vec<(usize, usize, bool)>,
    /// compare against the union form instead of the set form
    union: bool,
    /// textual order is documented for this entry point
    ordered: bool,
}

/// (begin, end, is it a bound selection of the resource under test?)
fn obs(t: &ResultTextSelection) -> (usize, usize, bool) {
    (
        t.begin(),
        t.end(),
        matches!(t, ResultTextSelection::Bound(_)) && t.resource().id() == Some("r"),
    )
}

fn collect<'a>(it: impl Iterator<Item = ResultTextSelection<'a>>) -> Vec<(usize, usize, bool)> {
    it.map(|t| obs(&t)).collect()
}

fn run_query<'s>(
    store: &'s AnnotationStore,
    kw: &str,
    tvar: Option<&ResultTextSelection<'s>>,
    avar: Option<&ResultItem<'s, Annotation>>,
    secondary: bool,
) -> Result<Vec<(usize, usize, bool)>, String> {
    // secondary: the RELATION constraint comes after another constraint and is evaluated as a filter over the
    // known selections of the resource (a different implementation from the index-driven first position)
    let qs = if secondary { format!("SELECT TEXT ?x WHERE RESOURCE \"r\"; RELATION ?ref {};", kw) } else { format!("SELECT TEXT ?x WHERE RELATION ?ref {};", kw) };
    let (mut q, _) = Query::parse(&qs).map_err(|e| format!("parse: {}", e))?;
    if let Some(t) = tvar {
        q.bind_textvar("ref", t);
    }
    if let Some(a) = avar {
        q.bind_annotationvar("ref", a);
    }
    let iter = store.query(q).map_err(|e| format!("query: {}", e))?;
    let mut v = vec![];
    for r in iter {
        for item in r.iter() {
            if let QueryResultItem::TextSelection(t) = item {
                v.push(obs(t));
            }
        }
    }
    Ok(v)
}

impl Property for C06 {
    type Case = Case;
    fn id(&self) -> &'static str {
        "C06"
    }
    fn rule(&self) -> String {
        "case = (text of 0-48 (thorough: 0-64) codepoints built from word and whitespace runs, half of them with 2-4 byte characters and tab/newline/U+3000 whitespace, some runs longer than the whitespace limit; 1-12 (thorough: 1-16) known selections placed on shared anchor positions (nested, crossing, adjacent, same begin/end, zero-width, touching the end of the text, anywhere), some of whose annotations are removed again; a reference = bound or unbound selection | annotation over 1-3 selections (TextSelector, Multi-, Composite- or DirectionalSelector) | explicit TextSelectionSet of 1-3 bound/unbound selections, half of them sort()ed; a second resource with the same text and annotations on the same offsets is always present and must never show up). Every case is evaluated under all 96 operator/modifier combinations (Equals, Overlaps, Embeds, SameBegin, SameEnd x all x negate; Embedded, Before, After x all x negate x limit{None,0,1,3,10}; Precedes, Succeeds x all x negate x allow_whitespace) through ResultTextSelection::related_text, ResultItem<TextSelection>::related_text, ResultItem<Annotation>::related_text, ResultTextSelectionSet::related_text, ResultItem<TextResource>::related_text, annotation.textselections().related_text (TextSelectionIterator, 'each selection separately') and (for the ten keyword forms) SELECT TEXT ?x WHERE RELATION ?ref <OP> with a text or annotation variable, as the first constraint and as a filter after RESOURCE \"r\"; the answer is compared with a brute-force scan of all known selections under the interval-arithmetic relation definitions (completeness, soundness, each once, textual order where documented). Enumerated part: every range of a small text known, every range as reference (and every pair of ranges as a set). Non-trivial = at least 3 known selections and, for some positive operator, both a related and an unrelated candidate; distinct = distinct case JSON.".into()
    }
    fn assumptions(&self) -> Vec<String> {
        vec![
            "the relation is read with the reference as subject: result = { c known : reference OP c } (README: sentence.related_text(embeds()) = what the sentence embeds; tests: phrase.related_text(after()) = what the phrase comes after)".into(),
            "members of the reference are 'the reference itself': expected only under positive Equals (for a multi-member reference only without `all` and when all members are known; otherwise don't care)".into(),
            "don't care (counted): Overlaps with a zero-width operand; Precedes/Succeeds with allow_whitespace over an all-whitespace gap of more than 10 codepoints; Embeds from a multi-member reference where the documented and the implemented quantifier shape differ (known finding of C13); Equals/`all` and limit+`all` on multi-member references where the rustdoc is silent".into(),
            "the `limit` modifier is read as the relation test reads it (distance between the facing boundaries <= limit): the statement ties the search result to the relation test, and C13 pins that test to crate::rel".into(),
            "InSet and SameRange are not part of the statement and are not exercised; textual order is only asserted for ResultItem<Annotation>::related_text, whose rustdoc promises it, and only as non-decreasing begin positions ('the order in which they appear in the text'); the order among selections with the same begin is don't care".into(),
            "TextSelectionIterator::related_text and RELATION with an annotation variable are compared with the 'each selection separately' form documented for TextSelectionIterator::related_text (related to any member)".into(),
        ]
    }
    fn cases(&self, tier: Tier) -> u64 {
        tier.pick(500_000, 8_000_000)
    }
    fn exhaustive_note(&self, tier: Tier) -> Option<String> {
        Some(match tier {
            Tier::Quick => "texts of 4 and 6 codepoints with every range 0<=b<=e<=N known: every range as bound reference (N=4,6) and every pair of ranges as an explicit set (N=4), x all 96 operator/modifier combinations".into(),
            Tier::Thorough => "texts of 4, 6 and 9 codepoints with every range known: every range as bound reference (N=4,6,9) and every pair of ranges as an explicit set (N=4,5), x all 96 operator/modifier combinations".into(),
        })
    }
    fn enumerate(&self, tier: Tier) -> Vec<Case> {
        let base = "a b  c de";
        let mut v = vec![];
        let all_ranges = |n: u8| -> Vec<(u8, u8)> {
            let mut r = vec![];
            for b in 0..=n {
                for e in b..=n {
                    r.push((b, e));
                }
            }
            r
        };
        let singles: Vec<u8> = tier.pick(vec![4, 6], vec![4, 6, 9]);
        for n in singles {
            let text: String = base.chars().take(n as usize).collect();
            let rs = all_ranges(n);
            let known: Vec<KnownSel> = rs.iter().map(|r| KnownSel { b: r.0, e: r.1, removed: false }).collect();
            for r in &rs {
                v.push(Case {
                    text: text.clone(),
                    known: known.clone(),
                    reference: RefSpec::Selection { b: r.0, e: r.1 },
                    only: None,
                });
            }
        }
        let pairs: Vec<u8> = tier.pick(vec![4], vec![4, 5]);
        for n in pairs {
            let text: String = base.chars().take(n as usize).collect();
            let rs = all_ranges(n);
            let known: Vec<KnownSel> = rs.iter().map(|r| KnownSel { b: r.0, e: r.1, removed: false }).collect();
            for i in 0..rs.len() {
                for j in i + 1..rs.len() {
                    v.push(Case {
                        text: text.clone(),
                        known: known.clone(),
                        reference: RefSpec::Set { sels: vec![rs[i], rs[j]], sorted: (i + j) % 2 == 1 },
                        only: None,
                    });
                }
            }
        }
        v
    }
    fn strategy(&self, tier: Tier) -> BoxedStrategy<Case> {
        let maxlen: usize = tier.pick(48, 64);
        let segs = proptest::collection::vec((any::<u8>(), any::<u8>()), 0..=tier.pick(12, 16));
        let anchors = proptest::collection::vec(any::<u16>(), 1..=5);
        let sels = proptest::collection::vec((rawsel(), prop::bool::weighted(0.15)), 1..=tier.pick(12, 16));
        let refsels = proptest::collection::vec((rawsel(), prop::bool::weighted(0.5), any::<u16>()), 1..=3);
        (segs, any::<bool>(), anchors, sels, any::<u8>(), refsels)
            .prop_map(move |(segs, ascii, anchors, sels, refkind, refsels)| {
                raw_case(segs, ascii, anchors, sels, refkind, refsels, maxlen)
            })
            .boxed()
    }

    fn health(&self, labels: &BTreeMap<String, u64>, evals: u64) -> Vec<String> {
        let mut v = vec![];
        if evals < 2000 {
            return v;
        }
        let frac = |l: &str| *labels.get(l).unwrap_or(&0) as f64 / evals as f64;
        for (l, min) in [
            ("ref_second_half", 0.30),
            ("ref_first_half", 0.30),
            ("multibyte", 0.25),
            ("cand_zero_width", 0.30),
            ("cand_ends_at_textlen", 0.30),
            ("ref_multi", 0.20),
            ("ref_bound", 0.20),
            ("ref_unbound", 0.08),
            ("ref_annotation", 0.15),
            ("ref_set", 0.10),
            ("cand_crossing", 0.18),
            ("cand_nested", 0.30),
            ("ws_gap_candidate", 0.15),
        ] {
            if frac(l) < min {
                v.push(format!("label {} in only {:.1}% of cases (< {:.0}%)", l, frac(l) * 100.0, min * 100.0));
            }
        }
        v
    }

    fn run(&self, case: &Case) -> Outcome {
        let mut out = Outcome::new();
        let text: Vec<char> = case.text.chars().collect();
        let n = text.len();
        let refspec: Vec<(u8, u8)> = match &case.reference {
            RefSpec::Selection { b, e } => vec![(*b, *e)],
            RefSpec::Annotation { sels, .. } | RefSpec::Set { sels, .. } => sels.clone(),
        };
        let valid = |b: u8, e: u8| b <= e && (e as usize) <= n;
        let mut dedup = refspec.clone();
        dedup.sort();
        dedup.dedup();
        if n > 200
            || case.known.len() > 64
            || refspec.is_empty()
            || refspec.len() > 8
            || dedup.len() != refspec.len()
            || case.known.iter().any(|k| !valid(k.b, k.e))
            || refspec.iter().any(|r| !valid(r.0, r.1))
        {
            out.skip("invalid case");
            return out;
        }
        let refs: Vec<R> = refspec.iter().map(|r| (r.0 as usize, r.1 as usize)).collect();

        // ---- build the store
        let mut store = AnnotationStore::default();
        store
            .add_resource(TextResourceBuilder::new().with_id("r").with_text(case.text.clone()))
            .expect("add_resource");
        // a second resource with the same text: its selections (same offsets) must never show up
        store
            .add_resource(TextResourceBuilder::new().with_id("other").with_text(case.text.clone()))
            .expect("add_resource other");
        let mut known: Vec<R> = vec![];
        let mut to_remove = vec![];
        for (i, k) in case.known.iter().enumerate() {
            let r = (k.b as usize, k.e as usize);
            let h = store
                .annotate(
                    AnnotationBuilder::new()
                        .with_target(SelectorBuilder::textselector("r", Offset::simple(r.0, r.1)))
                        .with_data("s", "k", i as isize),
                )
                .expect("annotate");
            if k.removed {
                to_remove.push(h);
            }
            if i % 2 == 0 {
                store
                    .annotate(
                        AnnotationBuilder::new()
                            .with_target(SelectorBuilder::textselector("other", Offset::simple(r.0, r.1)))
                            .with_data("s", "k", "other"),
                    )
                    .expect("annotate other");
            }
            if !known.contains(&r) {
                known.push(r);
            }
        }
        let mut refann = None;
        if let RefSpec::Annotation { complex, .. } = &case.reference {
            let subs = refs
                .iter()
                .map(|r| SelectorBuilder::textselector("r", Offset::simple(r.0, r.1)));
            let target = if refs.len() == 1 {
                SelectorBuilder::textselector("r", Offset::simple(refs[0].0, refs[0].1))
            } else {
                match complex % 3 {
                    0 => SelectorBuilder::multiselector(subs),
                    1 => SelectorBuilder::compositeselector(subs),
                    _ => SelectorBuilder::directionalselector(subs),
                }
            };
            let h = store
                .annotate(AnnotationBuilder::new().with_target(target).with_data("s", "k", "ref"))
                .expect("annotate reference");
            refann = Some(h);
            for r in &refs {
                if !known.contains(r) {
                    known.push(*r);
                }
            }
        }
        if !to_remove.is_empty() {
            out.label("annotation_removed");
        }
        for h in to_remove {
            if store.remove_annotation(h).is_err() {
                out.skip("remove_annotation failed");
                return out;
            }
        }
        known.sort();
        let store = &store;
        let resource = store.resource("r").expect("resource");

        // every known selection must be visible as a bound selection, and nothing else (precondition, C01's business)
        let mut listed: Vec<R> = resource.textselections().map(|t| (t.begin(), t.end())).collect();
        listed.sort();
        if listed != known {
            out.skip("known selections differ from resource.textselections()");
            return out;
        }

        // ---- the reference
        let mk = |r: &R| -> ResultTextSelection {
            resource
                .textselection(&Offset::simple(r.0, r.1))
                .expect("textselection in range")
        };
        let refsel: Vec<ResultTextSelection> = refs.iter().map(mk).collect();
        for (r, t) in refs.iter().zip(refsel.iter()) {
            let bound = matches!(t, ResultTextSelection::Bound(_));
            if bound != known.contains(r) {
                out.skip("boundness of reference differs from knownness");
                return out;
            }
        }
        let refs_all_known = refs.iter().all(|r| known.contains(r));
        let refs_any_known = refs.iter().any(|r| known.contains(r));
        let rclass = refclass(&refs, n);

        // ---- labels
        let halfway = n / 2;
        if refs.iter().any(|r| r.0 > halfway) {
            out.label("ref_second_half");
        }
        if refs.iter().any(|r| r.0 <= halfway) {
            out.label("ref_first_half");
        }
        if refs.len() > 1 {
            out.label("ref_multi");
        }
        if refs.iter().any(|r| r.0 == r.1) {
            out.label("ref_zero_width");
        }
        if refs.iter().any(|r| r.1 == n) {
            out.label("ref_ends_at_textlen");
        }
        match &case.reference {
            RefSpec::Selection { .. } => out.label(if refs_all_known { "ref_bound" } else { "ref_unbound" }),
            RefSpec::Annotation { .. } => out.label("ref_annotation"),
            RefSpec::Set { sorted, .. } => {
                out.label("ref_set");
                if *sorted {
                    out.label("ref_set_sorted");
                }
                if refs_any_known && !refs_all_known {
                    out.label("ref_set_mixed_bound_unbound");
                }
            }
        }
        if !case.text.is_ascii() {
            out.label("multibyte");
        }
        if n == 0 {
            out.label("text_empty");
        }
        let hb = refs.iter().map(|x| x.0).min().unwrap();
        let he = refs.iter().map(|x| x.1).max().unwrap();
        for c in &known {
            if refs.contains(c) {
                continue;
            }
            if c.0 == c.1 {
                out.label("cand_zero_width");
                if c.0 == n {
                    out.label("cand_zero_width_at_textlen");
                }
                if c.0 == hb || c.0 == he {
                    out.label("cand_zero_width_on_ref_boundary");
                }
            }
            if c.1 == n {
                out.label("cand_ends_at_textlen");
            }
            if (c.0 < hb && c.1 > hb && c.1 < he) || (c.0 > hb && c.0 < he && c.1 > he) {
                out.label("cand_crossing");
            }
            if (c.0 >= hb && c.1 <= he) || (c.0 <= hb && c.1 >= he) {
                out.label("cand_nested");
            }
            if c.1 == hb || c.0 == he {
                out.label("cand_adjacent");
            }
            if (c.1 < hb && text[c.1..hb].iter().all(|x| x.is_whitespace()))
                || (c.0 > he && text[he..c.0].iter().all(|x| x.is_whitespace()))
            {
                out.label("ws_gap_candidate");
                if (c.1 < hb && hb - c.1 > WHITESPACE_LIMIT) || (c.0 > he && c.0 - he > WHITESPACE_LIMIT) {
                    out.label("ws_gap_over_limit");
                }
            }
        }

        // ---- evaluate
        let ops: Vec<Op> = match &case.only {
            Some(o) => vec![*o],
            None => c06_ops(),
        };
        let mut any_true = false;
        let mut any_false = false;
        let annotation = refann.map(|h| store.annotation(h).expect("reference annotation"));

        for op in &ops {
            let sop = op.to_stam();
            let opsig = op.sig();
            let mut answers: Vec<Answer> = vec![];
            let mut push = |out: &mut Outcome,
                            entry: &'static str,
                            union: bool,
                            ordered: bool,
                            r: Result<Vec<(usize, usize, bool)>, PanicInfo>| {
                match r {
                    Ok(items) => answers.push(Answer { entry, items, union, ordered }),
                    Err(p) => out.fail(
                        "panic",
                        format!("{}|ref={}|{}", opsig, rclass, p.signature()),
                        format!("{} panicked at {}:{}: {} (op {:?}, refs {:?}, known {:?}, text {:?})", entry, p.file, p.line, p.msg, sop, refs, known, case.text),
                    ),
                }
            };
            // the explicit set form and the resource form work for every kind of reference
            let sorted = matches!(&case.reference, RefSpec::Set { sorted: true, .. });
            let mktset = || -> TextSelectionSet {
                let set: ResultTextSelectionSet = refsel.iter().cloned().collect();
                let mut tset: TextSelectionSet = set.inner().clone();
                if sorted {
                    tset.sort();
                }
                tset
            };
            push(&mut out, "ResultTextSelectionSet::related_text", false, false, catch(|| {
                collect(mktset().as_resultset(store).related_text(sop))
            }));
            push(&mut out, "ResultItem<TextResource>::related_text", false, false, catch(|| {
                collect(resource.related_text(sop, mktset()))
            }));
            match &case.reference {
                RefSpec::Selection { .. } => {
                    push(&mut out, "ResultTextSelection::related_text", false, false, catch(|| collect(refsel[0].related_text(sop))));
                    if let Some(item) = refsel[0].as_resultitem() {
                        push(&mut out, "ResultItem<TextSelection>::related_text", false, false, catch(|| collect(item.related_text(sop))));
                    }
                    if let Some(kw) = query_keyword(op) {
                        for secondary in [false, true] {
                            match catch(|| run_query(store, kw, Some(&refsel[0]), None, secondary)) {
                                Ok(Ok(items)) => answers.push(Answer { entry: if secondary { "query:RESOURCE;RELATION(textvar)" } else { "query:RELATION(textvar)" }, items, union: false, ordered: false }),
                                Ok(Err(e)) => out.fail("query", format!("{}|error", opsig), format!("RELATION query with text variable failed: {}", e)),
                                Err(p) => out.fail("panic", format!("{}|ref={}|{}", opsig, rclass, p.signature()), format!("RELATION query panicked at {}:{}: {}", p.file, p.line, p.msg)),
                            }
                        }
                    }
                }
                RefSpec::Annotation { .. } => {
                    let a = annotation.as_ref().unwrap();
                    push(&mut out, "ResultItem<Annotation>::related_text", false, true, catch(|| collect(a.related_text(sop))));
                    push(&mut out, "annotation.textselectionset().related_text", false, false, catch(|| {
                        collect(a.textselectionset().expect("textselectionset").related_text(sop))
                    }));
                    push(&mut out, "annotation.textselections().related_text", true, false, catch(|| {
                        a.textselections().related_text(sop).map(|t| obs(&t)).collect()
                    }));
                    if let Some(kw) = query_keyword(op) {
                        for secondary in [false, true] {
                            match catch(|| run_query(store, kw, None, Some(a), secondary)) {
                                Ok(Ok(items)) => answers.push(Answer { entry: if secondary { "query:RESOURCE;RELATION(annotationvar)" } else { "query:RELATION(annotationvar)" }, items, union: true, ordered: false }),
                                Ok(Err(e)) => out.fail("query", format!("{}|error", opsig), format!("RELATION query with annotation variable failed: {}", e)),
                                Err(p) => out.fail("panic", format!("{}|ref={}|{}", opsig, rclass, p.signature()), format!("RELATION query panicked at {}:{}: {}", p.file, p.line, p.msg)),
                            }
                        }
                    }
                }
                RefSpec::Set { .. } => {}
            }

            // expectations per candidate
            let exp_set: Vec<Option<bool>> = known
                .iter()
                .map(|c| expect(op, &refs, refs_all_known, *c, &text))
                .collect();
            let exp_union: Vec<Option<bool>> = if answers.iter().any(|a| a.union) {
                known.iter().map(|c| expect_union(op, &refs, *c, &text)).collect()
            } else {
                vec![]
            };
            if !op.negate && op.limit.is_none() {
                for (c, e) in known.iter().zip(exp_set.iter()) {
                    if refs.contains(c) {
                        continue;
                    }
                    match e {
                        Some(true) => any_true = true,
                        Some(false) => any_false = true,
                        None => {}
                    }
                }
            }

            for ans in &answers {
                let exp = if ans.union { &exp_union } else { &exp_set };
                // signatures of the 'each selection separately' form and of sorted multi-member sets carry a prefix,
                // so that a defect confined to them can be listed without masking the main form
                let tag = if ans.union {
                    "union:"
                } else if sorted && refs.len() > 1 {
                    "sortedset:"
                } else {
                    ""
                };
                let ctx = |c: R| -> String {
                    format!(
                        "{} with {:?}: reference {:?} ({}), candidate {:?}, known {:?}, text {:?}, got {:?}",
                        ans.entry, sop, refs, rclass, c, known, case.text, ans.items
                    )
                };
                // soundness for things that are not known selections at all
                for it in &ans.items {
                    out.checks += 1;
                    let r = (it.0, it.1);
                    if !known.contains(&r) || !it.2 {
                        out.fail(
                            "soundness",
                            format!("{}{}|ref={}|not_a_known_selection", tag, opsig, rclass),
                            format!("returned {:?} (bound={}) which is not a known selection; {}", r, it.2, ctx(r)),
                        );
                    }
                }
                for (c, e) in known.iter().zip(exp.iter()) {
                    let count = ans.items.iter().filter(|it| (it.0, it.1) == *c).count();
                    out.checks += 1;
                    if count > 1 {
                        out.fail(
                            "dup",
                            format!("{}{}|ref={}|{}", tag, opsig, rclass, class(*c, &refs, n, op, &text)),
                            format!("returned {} times; {}", count, ctx(*c)),
                        );
                    }
                    match e {
                        None => out.dontcare += 1,
                        Some(true) => {
                            if count == 0 {
                                out.fail(
                                    "completeness",
                                    format!("{}{}|ref={}|{}", tag, opsig, rclass, class(*c, &refs, n, op, &text)),
                                    format!("missing; {}", ctx(*c)),
                                );
                            }
                        }
                        Some(false) => {
                            if count > 0 {
                                out.fail(
                                    "soundness",
                                    format!("{}{}|ref={}|{}", tag, opsig, rclass, class(*c, &refs, n, op, &text)),
                                    format!("returned although not in the relation; {}", ctx(*c)),
                                );
                            }
                        }
                    }
                }
                if ans.ordered {
                    out.checks += 1;
                    let v: Vec<R> = ans.items.iter().map(|it| (it.0, it.1)).collect();
                    // "in the same order as they appear in the original text": by begin position; ties are not documented
                    if v.windows(2).any(|w| w[0].0 > w[1].0) {
                        out.fail(
                            "order",
                            format!("{}|ref={}", opsig, rclass),
                            format!("not in textual order; {}", ctx((0, 0))),
                        );
                    }
                }
            }
        }
        out.nontrivial = known.len() >= 3 && any_true && any_false;
        out
    }
}
