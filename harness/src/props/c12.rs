//! C12 Codepoint/byte conversion is exact and tuning knobs never change answers.
//!
//! Part A (oracle = `char_indices` table): `utf8byte` / `utf8byte_to_charpos` / `text_by_offset` on the
//! resource and on a sub-selection (unbound `ResultTextSelection` and, when the selection is known,
//! `ResultItem<TextSelection>`), for every position 0..=len+2 and every byte 0..=bytes+2, under every
//! knob setting and before/after annotations populated the position index.
//! Part B (metamorphic): a complete observation (C04-style chain, find_text, related_text,
//! text_by_offset, known selections, JSON output) is identical under all knob settings, and its
//! annotation-independent part is identical with and without unrelated annotations inserted first.

use super::c04::{err_name, link_strategy, mode_name, offset_in_mode, oracle_range, resolve_link, slice, stam_offset, text_strategy, Link, MODES};
use crate::engine::*;
use crate::rel::{Op, Rel};
use proptest::prelude::*;
use serde::{Deserialize, Serialize};
use stam::*;
use std::collections::BTreeMap;

pub struct C12;

pub const INTERVALS: [usize; 6] = [100, 0, 1, 2, 3, 7];
/// no probe of Part B can legitimately return more results than this (texts have <= 64 codepoints, <= 12 annotations);
/// the bound keeps a broken library that never advances from exhausting memory
const MAX_RESULTS: usize = 400;

#[derive(Clone, Debug, Serialize, Deserialize)]
pub struct Case {
    pub text: String,
    /// unrelated annotations inserted before the probes (positions as fractions of the text length)
    pub pre: Vec<(u16, u16)>,
    /// is the sub-selection itself one of the pre-inserted annotations (so that it is a bound selection)?
    pub pre_sub: bool,
    /// the sub-selection
    pub sub: (u16, u16),
    /// C04-style chain, run as part of the observation
    pub links: Vec<Link>,
    /// needle for find_text: start position (fraction) and length 1..=3 in the text
    pub needle: (u16, u8),
}

#[derive(Clone, Copy, Debug, PartialEq)]
struct Knob {
    interval: usize,
    shrink: bool,
    /// false: store built directly under this configuration; true: built under the default configuration,
    /// serialised to STAM JSON and loaded again under this configuration
    reload: bool,
    /// 0: as above; 1: built and annotated under the default configuration, this configuration applied afterwards with
    /// set_config(); 2: the resource is created with another text under this configuration and its text replaced with
    /// TextResource::with_string() before it is added to the store
    late: u8,
}

impl Knob {
    fn config(&self) -> Config {
        Config::default().with_milestone_interval(self.interval).with_shrink_to_fit(self.shrink)
    }
    fn route(&self) -> &'static str {
        match (self.reload, self.late) {
            (true, _) => "reloaded",
            (false, 1) => "set-config-later",
            (false, 2) => "text-replaced",
            _ => "direct",
        }
    }
    fn sig(&self) -> String {
        format!("interval={}|shrink={}|{}", self.interval, self.shrink as u8, self.route())
    }
}

fn knobs() -> Vec<Knob> {
    let mut v = vec![];
    for reload in [false, true] {
        for shrink in [true, false] {
            for interval in INTERVALS {
                v.push(Knob { interval, shrink, reload, late: 0 });
            }
        }
    }
    for late in [1u8, 2] {
        for interval in INTERVALS {
            v.push(Knob { interval, shrink: false, reload: false, late });
        }
    }
    v
}

fn range_of(p: (u16, u16), n: usize) -> (usize, usize) {
    let (a, b) = (pick(p.0, n + 1), pick(p.1, n + 1));
    if a <= b {
        (a, b)
    } else {
        (b, a)
    }
}

/// the store for one knob setting: resource "r" plus (if `with_pre`) the unrelated annotations
fn build(case: &Case, knob: &Knob, with_pre: bool, n: usize, sub: (usize, usize)) -> Result<AnnotationStore, String> {
    let cfg = if knob.reload || knob.late == 1 { Config::default() } else { knob.config() };
    let mut store = AnnotationStore::new(cfg);
    if knob.late == 2 {
        // another text first (other byte layout, other length), then the real one
        let other: String = case.text.chars().rev().chain("xé日😀".chars()).collect();
        let resource = TextResource::from_string("r", other, knob.config()).with_string(case.text.clone());
        store.insert(resource).map_err(|e| format!("insert resource: {}", e))?;
    } else {
        store
            .add_resource(TextResourceBuilder::new().with_id("r").with_text(case.text.clone()))
            .map_err(|e| format!("add_resource: {}", e))?;
    }
    if with_pre {
        let mut ranges: Vec<(usize, usize)> = case.pre.iter().map(|p| range_of(*p, n)).collect();
        if case.pre_sub {
            ranges.push(sub);
        }
        for (i, r) in ranges.iter().enumerate() {
            store
                .annotate(
                    AnnotationBuilder::new()
                        .with_id(format!("P{}", i))
                        .with_target(SelectorBuilder::textselector("r", Offset::simple(r.0, r.1)))
                        .with_data("s", "pre", i as isize),
                )
                .map_err(|e| format!("annotate pre {:?}: {}", r, e))?;
        }
    }
    if knob.late == 1 {
        store.set_config(knob.config());
    }
    if knob.reload {
        let json = store.to_json_string(&Config::default()).map_err(|e| format!("to_json_string: {}", e))?;
        store = AnnotationStore::from_str(&json, knob.config()).map_err(|e| format!("from_str: {}", e))?;
    } else if knob.shrink {
        store.shrink_to_fit(true);
    }
    Ok(store)
}

struct Tables {
    n: usize,
    nbytes: usize,
    /// byte offset of codepoint position p, p in 0..=n
    byte_at: Vec<usize>,
    /// codepoint position of byte offset b if b is a boundary
    pos_at: Vec<Option<usize>>,
}

fn tables(text: &str) -> Tables {
    let mut byte_at: Vec<usize> = text.char_indices().map(|(b, _)| b).collect();
    byte_at.push(text.len());
    let n = byte_at.len() - 1;
    let mut pos_at = vec![None; text.len() + 1];
    for (p, b) in byte_at.iter().enumerate() {
        pos_at[*b] = Some(p);
    }
    Tables {
        n,
        nbytes: text.len(),
        byte_at,
        pos_at,
    }
}

/// Part A on one store. `phase` only labels the signature/detail.
fn conversions(out: &mut Outcome, case: &Case, t: &Tables, chars: &[char], sub: (usize, usize), store: &AnnotationStore, knob: &Knob, phase: &str) {
    let resource = store.resource("r").expect("resource");
    let ctx = format!("text={:?} [{}] {}", case.text, knob.sig(), phase);
    // ---- lengths
    {
        out.checks += 2;
        let (len, empty) = (resource.textlen(), resource.is_empty());
        if len != t.n || empty != (t.n == 0) {
            out.fail("length", "resource", format!("{}: resource.textlen() = {}, is_empty() = {}, the text has {} codepoints", ctx, len, empty, t.n));
        }
        if let Ok(Ok(ts)) = catch(|| resource.textselection(&Offset::simple(sub.0, sub.1))) {
            let (len, empty) = (ts.textlen(), ts.is_empty());
            if len != sub.1 - sub.0 || empty != (sub.1 == sub.0) {
                out.fail("length", "selection", format!("{}: selection {:?}: textlen() = {}, is_empty() = {}", ctx, sub, len, empty));
            }
        }
    }
    // ---- resource
    for p in 0..=t.n + 2 {
        out.checks += 1;
        let want = if p <= t.n { Some(t.byte_at[p]) } else { None };
        match catch(|| resource.utf8byte(p).map_err(|e| err_name(&e))) {
            Err(pi) => out.fail("panic", format!("resource.utf8byte|{}", pi.signature()), format!("{}: resource.utf8byte({}) panicked: {}", ctx, p, pi.msg)),
            Ok(got) => {
                if got.as_ref().ok().copied() != want {
                    let class = if want.is_none() {
                        "beyond-text-accepted"
                    } else if got.is_err() {
                        "refused"
                    } else {
                        "wrong"
                    };
                    out.fail(
                        "utf8byte",
                        format!("resource|{}|interval={}", class, knob.interval),
                        format!("{}: resource.utf8byte({}) = {:?}, expected {:?}", ctx, p, got, want),
                    );
                }
            }
        }
    }
    for b in 0..=t.nbytes + 2 {
        out.checks += 1;
        let want = if b <= t.nbytes { t.pos_at[b] } else { None };
        match catch(|| resource.utf8byte_to_charpos(b).map_err(|e| err_name(&e))) {
            Err(pi) => out.fail(
                "panic",
                format!("resource.utf8byte_to_charpos|{}", pi.signature()),
                format!("{}: resource.utf8byte_to_charpos({}) panicked: {}", ctx, b, pi.msg),
            ),
            Ok(got) => {
                if got.as_ref().ok().copied() != want {
                    let class = if b > t.nbytes {
                        "beyond-text-accepted"
                    } else if want.is_none() {
                        "inside-character-accepted"
                    } else if got.is_err() {
                        "refused"
                    } else {
                        "wrong"
                    };
                    out.fail(
                        "utf8byte_to_charpos",
                        format!("resource|{}|interval={}", class, knob.interval),
                        format!("{}: resource.utf8byte_to_charpos({}) = {:?}, expected {:?}", ctx, b, got, want),
                    );
                }
            }
        }
    }
    // text_by_offset of the sub range in all four modes
    let want_sub = slice(chars, sub);
    for (_, m) in MODES {
        let (b, e) = offset_in_mode(sub, t.n, m);
        let o = stam_offset(&b, &e);
        out.checks += 1;
        match catch(|| resource.text_by_offset(&o).map(|s| s.to_string()).map_err(|e| err_name(&e))) {
            Err(pi) => out.fail("panic", format!("resource.text_by_offset|{}", pi.signature()), format!("{}: resource.text_by_offset({:?}) panicked: {}", ctx, o, pi.msg)),
            Ok(got) => {
                if got.as_deref() != Ok(want_sub.as_str()) {
                    out.fail(
                        "text_by_offset",
                        format!("resource|{}|interval={}", m, knob.interval),
                        format!("{}: resource.text_by_offset({:?}) = {:?}, expected {:?}", ctx, o, got, want_sub),
                    );
                }
            }
        }
    }
    // ---- sub-selection
    let sel = match catch(|| resource.textselection(&Offset::simple(sub.0, sub.1))) {
        Ok(Ok(s)) => s,
        Ok(Err(e)) => {
            out.fail("setup", "sub-selection-refused", format!("{}: resource.textselection({:?}) failed: {}", ctx, sub, e));
            return;
        }
        Err(pi) => {
            out.fail("panic", format!("resource.textselection|{}", pi.signature()), format!("{}: resource.textselection({:?}) panicked: {}", ctx, sub, pi.msg));
            return;
        }
    };
    let sublen = sub.1 - sub.0;
    let subbytes = t.byte_at[sub.1] - t.byte_at[sub.0];
    // the two implementations of Text on selections
    enum Which<'a> {
        Fat(&'a ResultTextSelection<'a>),
        Item(&'a ResultItem<'a, TextSelection>),
    }
    let mut impls: Vec<(&'static str, Which)> = vec![("ResultTextSelection", Which::Fat(&sel))];
    if let ResultTextSelection::Bound(item) = &sel {
        impls.push(("ResultItem<TextSelection>", Which::Item(item)));
        out.label("sub.bound");
    } else {
        out.label("sub.unbound");
    }
    for (name, w) in &impls {
        for p in 0..=sublen + 2 {
            out.checks += 1;
            let want = if p <= sublen { Some(t.byte_at[sub.0 + p] - t.byte_at[sub.0]) } else { None };
            let got = catch(|| match w {
                Which::Fat(s) => s.utf8byte(p).map_err(|e| err_name(&e)),
                Which::Item(s) => s.utf8byte(p).map_err(|e| err_name(&e)),
            });
            match got {
                Err(pi) => out.fail("panic", format!("selection.utf8byte|{}", pi.signature()), format!("{}: {}{:?}.utf8byte({}) panicked: {}", ctx, name, sub, p, pi.msg)),
                Ok(got) => {
                    if got.as_ref().ok().copied() != want {
                        let class = if want.is_none() {
                            if sub.0 + p <= t.n {
                                "beyond-selection-accepted"
                            } else {
                                "beyond-text-accepted"
                            }
                        } else if got.is_err() {
                            "refused"
                        } else {
                            "wrong"
                        };
                        out.fail(
                            "utf8byte",
                            format!("selection|{}", class),
                            format!("{}: {}{:?}.utf8byte({}) = {:?}, expected {:?} (relative to the selection)", ctx, name, sub, p, got, want),
                        );
                    }
                }
            }
        }
        for b in 0..=subbytes + 2 {
            out.checks += 1;
            let abs = t.byte_at[sub.0] + b;
            let want = if b <= subbytes { t.pos_at[abs].map(|p| p - sub.0) } else { None };
            let got = catch(|| match w {
                Which::Fat(s) => s.utf8byte_to_charpos(b).map_err(|e| err_name(&e)),
                Which::Item(s) => s.utf8byte_to_charpos(b).map_err(|e| err_name(&e)),
            });
            match got {
                Err(pi) => out.fail(
                    "panic",
                    format!("selection.utf8byte_to_charpos|{}", pi.signature()),
                    format!("{}: {}{:?}.utf8byte_to_charpos({}) panicked: {}", ctx, name, sub, b, pi.msg),
                ),
                Ok(got) => {
                    if got.as_ref().ok().copied() != want {
                        let class = if b > subbytes {
                            if abs <= t.nbytes && t.pos_at[abs].is_some() {
                                "beyond-selection-accepted"
                            } else {
                                "beyond-text-accepted"
                            }
                        } else if want.is_none() {
                            "inside-character-accepted"
                        } else if got.is_err() {
                            "refused"
                        } else {
                            "wrong"
                        };
                        out.fail(
                            "utf8byte_to_charpos",
                            format!("selection|{}", class),
                            format!("{}: {}{:?}.utf8byte_to_charpos({}) = {:?}, expected {:?} (relative to the selection)", ctx, name, sub, b, got, want),
                        );
                    }
                }
            }
        }
        // text_by_offset: whole selection, and the first link of the chain resolved against the selection
        let mut offs: Vec<(Offset, Option<String>)> = vec![(Offset::whole(), Some(want_sub.clone()))];
        if let Some(l) = case.links.first() {
            let (cb, ce) = resolve_link(l, sublen);
            let want = oracle_range(&cb, &ce, sublen).map(|r| slice(chars, (sub.0 + r.0, sub.0 + r.1)));
            offs.push((stam_offset(&cb, &ce), want));
        }
        for (o, want) in offs {
            out.checks += 1;
            let got = catch(|| match w {
                Which::Fat(s) => s.text_by_offset(&o).map(|x| x.to_string()).map_err(|e| err_name(&e)),
                Which::Item(s) => s.text_by_offset(&o).map(|x| x.to_string()).map_err(|e| err_name(&e)),
            });
            match got {
                Err(pi) => out.fail(
                    "panic",
                    format!("selection.text_by_offset|{}", pi.signature()),
                    format!("{}: {}{:?}.text_by_offset({:?}) panicked: {}", ctx, name, sub, o, pi.msg),
                ),
                Ok(got) => {
                    if got.as_ref().ok() != want.as_ref() {
                        let class = if want.is_none() {
                            "accepted"
                        } else if got.is_err() {
                            "refused"
                        } else {
                            "wrong"
                        };
                        out.fail(
                            "text_by_offset",
                            format!("selection|{}", class),
                            format!("{}: {}{:?}.text_by_offset({:?}) = {:?}, expected {:?}", ctx, name, sub, o, got, want),
                        );
                    }
                }
            }
        }
    }
}

/// one named section of an observation; `indep` = by definition independent of which other annotations exist
struct Section {
    name: String,
    value: String,
    indep: bool,
}

fn fmt_sel(t: &ResultTextSelection) -> String {
    format!("[{},{}){:?}", t.begin(), t.end(), t.text())
}

/// Part B: run the chain and the probes on `store`, return the observation
fn observe(case: &Case, store: &mut AnnotationStore, n: usize, sub: (usize, usize), chars: &[char]) -> Vec<Section> {
    let mut secs: Vec<Section> = vec![];
    // --- chain (C04 style)
    let mut parent: Option<(AnnotationHandle, (usize, usize))> = None;
    let mut chain_ranges: Vec<(usize, usize)> = vec![];
    let mut accepted: Vec<AnnotationHandle> = vec![];
    for (i, link) in case.links.iter().enumerate() {
        let prange = parent.map(|p| p.1).unwrap_or((0, n));
        let plen = prange.1 - prange.0;
        let (cb, ce) = resolve_link(link, plen);
        let offset = stam_offset(&cb, &ce);
        let selector = match parent {
            Some((h, _)) => SelectorBuilder::annotationselector(h, Some(offset.clone())),
            None => SelectorBuilder::textselector("r", offset.clone()),
        };
        let builder = AnnotationBuilder::new()
            .with_id(format!("A{}", i))
            .with_target(selector)
            .with_data("s", "k", i as isize);
        let res = catch(|| store.annotate(builder));
        let value = match res {
            Err(pi) => format!("panic:{}", pi.signature()),
            Ok(Err(e)) => format!("err:{}", err_name(&e)),
            Ok(Ok(h)) => {
                // trust the oracle for the chain structure, the library for the content
                if let Some(r) = oracle_range(&cb, &ce, plen) {
                    let abs = (prange.0 + r.0, prange.0 + r.1);
                    parent = Some((h, abs));
                    chain_ranges.push(abs);
                }
                accepted.push(h);
                "ok".to_string()
            }
        };
        secs.push(Section {
            name: format!("chain.annotate#{}", i),
            value,
            indep: true,
        });
    }
    {
        let store = &*store;
        for (i, h) in accepted.iter().enumerate() {
            let v = catch(|| {
                let a = store.annotation(*h).expect("annotation");
                let mut s = String::new();
                s.push_str(&format!("text={:?};", a.text().collect::<Vec<_>>()));
                s.push_str(&format!("simple={:?};", a.text_simple()));
                s.push_str(&format!("tsel={:?};", a.textselections().map(|t| fmt_sel(&t)).collect::<Vec<_>>()));
                let sel = a.as_ref().target();
                s.push_str(&format!("offset={:?};", sel.offset(store)));
                for (m, mname) in MODES {
                    s.push_str(&format!("{}={:?};", mname, sel.offset_with_mode(store, Some(m))));
                }
                s
            });
            secs.push(Section {
                name: format!("chain.annotation#{}", i),
                value: v.unwrap_or_else(|pi| format!("panic:{}", pi.signature())),
                indep: true,
            });
        }
        let resource = store.resource("r").expect("resource");
        // --- find_text
        let needle: String = if n == 0 {
            "a".to_string()
        } else {
            let start = pick(case.needle.0, n);
            let len = (case.needle.1 as usize % 3) + 1;
            chars[start..(start + len).min(n)].iter().collect()
        };
        let v = catch(|| resource.find_text(&needle).take(MAX_RESULTS).map(|t| fmt_sel(&t)).collect::<Vec<_>>());
        secs.push(Section {
            name: "find_text.resource".into(),
            value: v.map(|x| format!("{:?}", x)).unwrap_or_else(|pi| format!("panic:{}", pi.signature())),
            indep: true,
        });
        let subsel = catch(|| resource.textselection(&Offset::simple(sub.0, sub.1)));
        if let Ok(Ok(subsel)) = subsel {
            let v = catch(|| subsel.find_text(&needle).take(MAX_RESULTS).map(|t| fmt_sel(&t)).collect::<Vec<_>>());
            secs.push(Section {
                name: "find_text.selection".into(),
                value: v.map(|x| format!("{:?}", x)).unwrap_or_else(|pi| format!("panic:{}", pi.signature())),
                indep: true,
            });
            // --- text_by_offset / textselection on the selection for every link offset
            for (i, l) in case.links.iter().enumerate() {
                let (cb, ce) = resolve_link(l, sub.1 - sub.0);
                let o = stam_offset(&cb, &ce);
                let v =
                    catch(|| format!("{:?} / {:?}", subsel.text_by_offset(&o).map_err(|e| err_name(&e)), subsel.textselection(&o).map(|t| fmt_sel(&t)).map_err(|e| err_name(&e))));
                secs.push(Section {
                    name: format!("selection.offset#{}", i),
                    value: v.unwrap_or_else(|pi| format!("panic:{}", pi.signature())),
                    indep: true,
                });
                let (cb, ce) = resolve_link(l, n);
                let o = stam_offset(&cb, &ce);
                let v = catch(|| {
                    format!(
                        "{:?} / {:?}",
                        resource.text_by_offset(&o).map_err(|e| err_name(&e)),
                        resource.textselection(&o).map(|t| fmt_sel(&t)).map_err(|e| err_name(&e))
                    )
                });
                secs.push(Section {
                    name: format!("resource.offset#{}", i),
                    value: v.unwrap_or_else(|pi| format!("panic:{}", pi.signature())),
                    indep: true,
                });
            }
            // --- related_text from the sub-selection: complete, and restricted to the chain's ranges
            for rel in [
                Rel::Equals,
                Rel::Overlaps,
                Rel::Embeds,
                Rel::Embedded,
                Rel::Before,
                Rel::After,
                Rel::Precedes,
                Rel::Succeeds,
                Rel::SameBegin,
                Rel::SameEnd,
            ] {
                let op = Op::new(rel);
                let v = catch(|| {
                    subsel
                        .related_text(op.to_stam())
                        .take(MAX_RESULTS)
                        .map(|t| (t.begin(), t.end()))
                        .collect::<Vec<_>>()
                });
                match v {
                    Ok(list) => {
                        secs.push(Section {
                            name: format!("related_text.{:?}", rel),
                            value: format!("{:?}", list),
                            indep: false,
                        });
                        // the order among selections with the same begin is the order of first insertion (undocumented),
                        // which an unrelated annotation on the same range changes: compare as a sorted list
                        let mut filtered: Vec<_> = list.iter().filter(|r| chain_ranges.contains(r)).collect();
                        filtered.sort();
                        secs.push(Section {
                            name: format!("related_text.chain-only.{:?}", rel),
                            value: format!("{:?}", filtered),
                            indep: true,
                        });
                    }
                    Err(pi) => secs.push(Section {
                        name: format!("related_text.{:?}", rel),
                        value: format!("panic:{}", pi.signature()),
                        indep: false,
                    }),
                }
            }
        }
        // --- the other C07 operations on the resource and on the sub-selection (answers must not depend on the knobs)
        {
            let sub_t = catch(|| resource.textselection(&Offset::simple(sub.0, sub.1))).ok().and_then(|r| r.ok());
            let re_src = format!("(?:{})+", regex::escape(&needle));
            let re2_src = "\\w+".to_string();
            let res: Vec<regex::Regex> = [re_src.as_str(), re2_src.as_str()].iter().filter_map(|s| regex::Regex::new(s).ok()).collect();
            let fragments: Vec<String> = needle.chars().take(2).map(|c| c.to_string()).collect();
            let frag_refs: Vec<&str> = fragments.iter().map(|s| s.as_str()).collect();
            let trimset: Vec<char> = needle.chars().chain([' ']).collect();
            let lower = needle.to_lowercase();
            macro_rules! c07ops {
                ($label:expr, $t:expr) => {{
                    let t = $t;
                    let v = catch(|| t.find_text_nocase(&lower).take(MAX_RESULTS).map(|x| fmt_sel(&x)).collect::<Vec<_>>());
                    secs.push(Section { name: format!("find_text_nocase.{}", $label), value: v.map(|x| format!("{:?}", x)).unwrap_or_else(|pi| format!("panic:{}", pi.signature())), indep: true });
                    for allow_overlap in [false, true] {
                        let v = catch(|| match t.find_text_regex(&res, None, allow_overlap) {
                            Ok(iter) => iter
                                .take(MAX_RESULTS)
                                .map(|m| format!("{:?}@{}", m.textselections().iter().map(|x| fmt_sel(x)).collect::<Vec<_>>(), m.expression_index()))
                                .collect::<Vec<_>>(),
                            Err(e) => vec![format!("err:{}", err_name(&e))],
                        });
                        secs.push(Section { name: format!("find_text_regex.{}.overlap={}", $label, allow_overlap), value: v.map(|x| format!("{:?}", x)).unwrap_or_else(|pi| format!("panic:{}", pi.signature())), indep: true });
                    }
                    let v = catch(|| t.split_text(&needle).take(MAX_RESULTS).map(|x| fmt_sel(&x)).collect::<Vec<_>>());
                    secs.push(Section { name: format!("split_text.{}", $label), value: v.map(|x| format!("{:?}", x)).unwrap_or_else(|pi| format!("panic:{}", pi.signature())), indep: true });
                    let v = catch(|| t.trim_text(&trimset).map(|x| fmt_sel(&x)).map_err(|e| err_name(&e)));
                    secs.push(Section { name: format!("trim_text.{}", $label), value: v.map(|x| format!("{:?}", x)).unwrap_or_else(|pi| format!("panic:{}", pi.signature())), indep: true });
                    let v = catch(|| t.find_text_sequence(&frag_refs, |c| !c.is_alphanumeric(), true).map(|v| v.iter().map(|x| fmt_sel(x)).collect::<Vec<_>>()));
                    secs.push(Section { name: format!("find_text_sequence.{}", $label), value: v.map(|x| format!("{:?}", x)).unwrap_or_else(|pi| format!("panic:{}", pi.signature())), indep: true });
                }};
            }
            if !needle.is_empty() {
                c07ops!("resource", &resource);
                if let Some(st) = &sub_t {
                    c07ops!("selection", st);
                }
            }
            // segmentation depends on which selections are known: compared across knob settings only
            let v = catch(|| resource.segmentation().take(MAX_RESULTS).map(|x| (x.begin(), x.end())).collect::<Vec<_>>());
            secs.push(Section { name: "segmentation.resource".into(), value: v.map(|x| format!("{:?}", x)).unwrap_or_else(|pi| format!("panic:{}", pi.signature())), indep: false });
            if sub.0 < sub.1 {
                let v = catch(|| resource.segmentation_in_range(sub.0, sub.1).take(MAX_RESULTS).map(|x| (x.begin(), x.end())).collect::<Vec<_>>());
                secs.push(Section { name: "segmentation.in_range".into(), value: v.map(|x| format!("{:?}", x)).unwrap_or_else(|pi| format!("panic:{}", pi.signature())), indep: false });
                if let Some(st) = &sub_t {
                    let v = catch(|| st.segmentation().take(MAX_RESULTS).map(|x| (x.begin(), x.end())).collect::<Vec<_>>());
                    secs.push(Section { name: "segmentation.selection".into(), value: v.map(|x| format!("{:?}", x)).unwrap_or_else(|pi| format!("panic:{}", pi.signature())), indep: false });
                }
            }
        }
        // --- all known selections, in textual order
        let v = catch(|| resource.textselections().take(MAX_RESULTS).map(|t| (t.begin(), t.end())).collect::<Vec<_>>());
        secs.push(Section {
            name: "resource.textselections".into(),
            value: v.map(|x| format!("{:?}", x)).unwrap_or_else(|pi| format!("panic:{}", pi.signature())),
            indep: false,
        });
        // --- reverse index: which annotations are on each known selection
        let v = catch(|| {
            resource
                .textselections()
                .take(MAX_RESULTS)
                .map(|t| {
                    let ids: Vec<String> = t.annotations().map(|a| a.id().unwrap_or("?").to_string()).collect();
                    format!("[{},{})={:?}", t.begin(), t.end(), ids)
                })
                .collect::<Vec<_>>()
        });
        secs.push(Section {
            name: "textselection.annotations".into(),
            value: v.map(|x| format!("{:?}", x)).unwrap_or_else(|pi| format!("panic:{}", pi.signature())),
            indep: false,
        });
        // --- serialisation
        let v = catch(|| store.to_json_string(&Config::default()).map_err(|e| err_name(&e)));
        secs.push(Section {
            name: "json".into(),
            value: v.map(|x| format!("{:?}", x)).unwrap_or_else(|pi| format!("panic:{}", pi.signature())),
            indep: false,
        });
    }
    secs
}

impl Property for C12 {
    type Case = Case;
    fn id(&self) -> &'static str {
        "C12"
    }
    fn rule(&self) -> String {
        "case = text of 0-64 codepoints over 1-4 byte characters, 0-8 unrelated annotations, a sub-selection (optionally itself annotated, so both Text implementations for selections are reached), a C04-style chain of 1-3 offsets and a needle. Every case is run under 36 knob settings (milestone interval {100,0,1,2,3,7} x shrink_to_fit {on,off} x {store built directly under the configuration, store serialised to JSON and loaded under the configuration}, plus interval x {configuration applied with set_config() after the annotations exist, resource created with another text and replaced with TextResource::with_string()}), each without and with the unrelated annotations. Part A: utf8byte for every position 0..=len+2 and utf8byte_to_charpos for every byte 0..=bytes+2 on the resource and (relative) on the sub-selection, plus text_by_offset, before and after the chain's annotations populated the position index, against a char_indices table. Part B: the complete observation (chain annotate results, texts, reported offsets in all modes, find_text on resource and selection, text_by_offset/textselection, related_text for 10 relations, all known selections, JSON output) must be identical under all 24 settings; its annotation-independent part must be identical with and without the unrelated annotations. Non-trivial = multi-byte text longer than 7 codepoints (so longer than every interval but 100) with >= 1 unrelated annotation; distinct = distinct case JSON.".into()
    }
    fn assumptions(&self) -> Vec<String> {
        vec![
            "Config::shrink_to_fit is only consulted by the loaders; 'on' for a directly built store means AnnotationStore::shrink_to_fit(true) is called after set-up".into(),
            "CBOR reload is left to C11; milestone interval 100 is reached by position only for texts of 0-64 codepoints (no milestone is ever placed), exactly like the default configuration".into(),
            "related_text / textselections() / JSON naturally depend on which annotations exist: across the with/without-annotations comparison only find_text, offsets, chain results and related_text restricted to the chain's own ranges are compared".into(),
            "a panic inside a Part B probe is recorded as the probe's value (it must then occur under every setting); only Part A treats a panic as a failure by itself".into(),
        ]
    }
    fn cases(&self, tier: Tier) -> u64 {
        tier.pick(8_000, 120_000)
    }
    fn strategy(&self, _tier: Tier) -> BoxedStrategy<Case> {
        (
            text_strategy(64),
            proptest::collection::vec((any::<u16>(), any::<u16>()), 0..=8),
            any::<bool>(),
            (prop_oneof![5 => any::<u16>(), 1 => Just(0u16)], prop_oneof![5 => any::<u16>(), 1 => Just(u16::MAX)]),
            proptest::collection::vec(link_strategy(), 1..=3),
            (any::<u16>(), 0u8..3),
        )
            .prop_map(|(text, pre, pre_sub, sub, links, needle)| Case {
                text,
                pre,
                pre_sub,
                sub,
                links,
                needle,
            })
            .boxed()
    }
    fn health(&self, labels: &BTreeMap<String, u64>, evals: u64) -> Vec<String> {
        let mut v = vec![];
        if evals < 2000 {
            return v;
        }
        let frac = |l: &str| labels.get(l).copied().unwrap_or(0) as f64 / evals as f64;
        for (l, min) in [
            ("multibyte", 0.5),
            ("len>7", 0.5),
            ("pre-annotations", 0.7),
            ("sub.bound", 0.3),
            ("sub.unbound", 0.5),
            ("sub.begin>0", 0.5),
            ("sub.multibyte", 0.3),
            ("chain.depth>=2", 0.2),
        ] {
            if frac(l) < min {
                v.push(format!("label {} occurs in {:.2}% of cases, expected >= {:.0}%", l, frac(l) * 100.0, min * 100.0));
            }
        }
        v
    }

    fn run(&self, case: &Case) -> Outcome {
        let mut out = Outcome::new();
        if case.links.is_empty() || case.links.len() > 6 || case.pre.len() > 32 {
            out.skip("invalid case");
            return out;
        }
        let chars: Vec<char> = case.text.chars().collect();
        let t = tables(&case.text);
        let n = t.n;
        let sub = range_of(case.sub, n);
        let multibyte = t.nbytes != n;
        if multibyte {
            out.label("multibyte");
        }
        if n > 7 {
            out.label("len>7");
        }
        if n == 0 {
            out.label("empty-text");
        }
        if !case.pre.is_empty() || case.pre_sub {
            out.label("pre-annotations");
        }
        if sub.0 > 0 {
            out.label("sub.begin>0");
        }
        if t.byte_at[sub.1] - t.byte_at[sub.0] != sub.1 - sub.0 {
            out.label("sub.multibyte");
        }
        if sub.0 == sub.1 {
            out.label("sub.zero-width");
        }
        // how deep does the chain get (oracle only)
        {
            let mut parent = (0usize, n);
            let mut depth = 0;
            for l in &case.links {
                let plen = parent.1 - parent.0;
                let (cb, ce) = resolve_link(l, plen);
                if let Some(r) = oracle_range(&cb, &ce, plen) {
                    parent = (parent.0 + r.0, parent.0 + r.1);
                    depth += 1;
                } else {
                    out.label("chain.rejected");
                }
                if mode_name(&cb, &ce) != "BB" {
                    out.label("chain.end-aligned");
                }
            }
            if depth >= 2 {
                out.label("chain.depth>=2");
            }
        }

        let mut reference: [Option<(Knob, Vec<Section>)>; 2] = [None, None];
        for with_pre in [false, true] {
            for knob in knobs() {
                let built = catch(|| build(case, &knob, with_pre, n, sub));
                let mut store = match built {
                    Ok(Ok(s)) => s,
                    Ok(Err(e)) => {
                        out.fail(
                            "setup",
                            format!("build|{}", knob.route()),
                            format!("text={:?} [{}] pre={}: {}", case.text, knob.sig(), with_pre, e),
                        );
                        continue;
                    }
                    Err(pi) => {
                        out.fail(
                            "panic",
                            format!("build|{}", pi.signature()),
                            format!("text={:?} [{}] pre={}: set-up panicked at {}:{}: {}", case.text, knob.sig(), with_pre, pi.file, pi.line, pi.msg),
                        );
                        continue;
                    }
                };
                let nfail = out.failures.len();
                conversions(&mut out, case, &t, &chars, sub, &store, &knob, if with_pre { "after unrelated annotations" } else { "fresh resource" });
                if out.failures.len() > nfail {
                    // positions do not convert correctly in this store: searching it may not even terminate
                    out.label("partB-skipped");
                    continue;
                }
                let obs = observe(case, &mut store, n, sub, &chars);
                conversions(&mut out, case, &t, &chars, sub, &store, &knob, if with_pre { "after unrelated annotations and the chain" } else { "after the chain" });
                let slot = with_pre as usize;
                match &reference[slot] {
                    None => reference[slot] = Some((knob, obs)),
                    Some((k0, ref_obs)) => {
                        out.checks += 1;
                        if ref_obs.len() != obs.len() {
                            out.fail(
                                "metamorphic.knob",
                                format!("shape|{}", knob.sig()),
                                format!(
                                    "text={:?} pre={}: the observation has {} sections under [{}] but {} under [{}]",
                                    case.text,
                                    with_pre,
                                    ref_obs.len(),
                                    k0.sig(),
                                    obs.len(),
                                    knob.sig()
                                ),
                            );
                        }
                        for (a, b) in ref_obs.iter().zip(obs.iter()) {
                            out.checks += 1;
                            if a.name != b.name || a.value != b.value {
                                let sec = a.name.split(|c| c == '#').next().unwrap_or("").to_string();
                                out.fail(
                                    "metamorphic.knob",
                                    format!("{}|{}", sec, knob.sig()),
                                    format!(
                                        "text={:?} pre={} sub={:?}: {} differs: under [{}] {} = {} but under [{}] {} = {}",
                                        case.text,
                                        with_pre,
                                        sub,
                                        a.name,
                                        k0.sig(),
                                        a.name,
                                        a.value,
                                        knob.sig(),
                                        b.name,
                                        b.value
                                    ),
                                );
                            }
                        }
                    }
                }
            }
        }
        // with vs without unrelated annotations: the annotation-independent sections
        if let (Some((k0, a)), Some((_, b))) = (&reference[0], &reference[1]) {
            let ia: Vec<&Section> = a.iter().filter(|s| s.indep).collect();
            let ib: Vec<&Section> = b.iter().filter(|s| s.indep).collect();
            out.checks += 1;
            if ia.len() != ib.len() {
                out.fail(
                    "metamorphic.annotations",
                    "shape",
                    format!("text={:?}: {} annotation-independent sections without, {} with unrelated annotations [{}]", case.text, ia.len(), ib.len(), k0.sig()),
                );
            }
            for (x, y) in ia.iter().zip(ib.iter()) {
                out.checks += 1;
                if x.name != y.name || x.value != y.value {
                    let sec = x.name.split(|c| c == '#').next().unwrap_or("").to_string();
                    out.fail(
                        "metamorphic.annotations",
                        sec,
                        format!(
                            "text={:?} sub={:?} pre={:?}: {} = {} on a fresh resource but {} = {} after unrelated annotations were added first [{}]",
                            case.text,
                            sub,
                            case.pre.iter().map(|p| range_of(*p, n)).collect::<Vec<_>>(),
                            x.name,
                            x.value,
                            y.name,
                            y.value,
                            k0.sig()
                        ),
                    );
                }
            }
        }
        out.nontrivial = multibyte && n > 7 && (!case.pre.is_empty() || case.pre_sub);
        out
    }
}
