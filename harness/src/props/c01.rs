//! C01 Reverse lookups agree with forward references after any history.
//! C02 Removal cascades exactly and never leaves dangling references.
//! Both run the same model-based history machine; each owns its own family of facets (hcheck::Fam).

use crate::engine::*;
use crate::hcheck::*;
use crate::hist::*;
use proptest::prelude::*;
use stam::*;

pub struct C01;
pub struct C02;

pub fn run_history(h: &History, fam: Fam) -> Outcome {
    let mut out = Outcome::new();
    let mut m = Machine::new(h.hostile);
    let mut any_removal = false;
    let mut removal_then_lookup = false;
    let mut nontrivial_removal = false;
    let mut steps = 0usize;
    for op in &h.ops {
        let step = m.apply(op);
        if step.skipped.is_some() {
            out.label("op_skipped");
            continue;
        }
        steps += 1;
        out.label(step.kind);
        for l in &step.labels {
            out.label(l);
        }
        let sc = check_step(&m, op, &step, any_removal);
        out.checks += sc.checks;
        if any_removal && !op.is_removal() || (any_removal && op.is_removal()) {
            // a lookup battery ran on a store that has seen a removal
            removal_then_lookup = true;
        }
        if op.is_removal() {
            any_removal = true;
            if let Some(r) = &step.removal {
                if r.had_dependents && r.had_survivors {
                    nontrivial_removal = true;
                    out.label("removal_with_dependents_and_survivors");
                }
                if !r.modified.is_empty() {
                    out.label("nonstrict_survivor");
                }
                if r.doomed.len() > 1 {
                    out.label("cascade>1");
                }
            }
        }
        if let Some(obs) = &sc.obs {
            if obs.anns.iter().any(|a| a.ranged) {
                out.label("range_compressed");
            }
        }
        let mut foreign = false;
        for f in &sc.findings {
            if f.fam == fam {
                out.fail(&f.failure.facet, f.failure.signature.clone(), format!("step {} ({}): {}", steps, step.kind, f.failure.detail));
            } else {
                foreign = true;
            }
        }
        // C02 extras after a removal: serialisation and a query must work on the survivors
        if fam == Fam::Cascade && op.is_removal() && !sc.diverged {
            let store = &m.store;
            match catch(|| store.to_json_string(store.config())) {
                Ok(Ok(_)) => {}
                Ok(Err(e)) => out.fail("dangling.json", format!("{}|err", step.kind), format!("to_json_string failed after {}: {}", step.kind, e)),
                Err(p) => out.fail("dangling.json", p.signature(), format!("to_json_string panicked after {}: {}", step.kind, p.msg)),
            }
            match catch(|| -> Result<usize, StamError> {
                let q: Query = "SELECT ANNOTATION ?a".try_into()?;
                let mut n = 0;
                for r in store.query(q)? {
                    for item in r.iter() {
                        if let QueryResultItem::Annotation(a) = item {
                            let _ = a.data().count();
                            let _ = a.textselections().count();
                            n += 1;
                        }
                    }
                }
                Ok(n)
            }) {
                Ok(Ok(n)) => {
                    if n != m.model.live_anns().len() {
                        out.fail("dangling.query", format!("{}|count", step.kind), format!("SELECT ANNOTATION returns {} annotations, {} are live", n, m.model.live_anns().len()));
                    }
                }
                Ok(Err(e)) => out.fail("dangling.query", format!("{}|err", step.kind), format!("query failed after {}: {}", step.kind, e)),
                Err(p) => out.fail("dangling.query", p.signature(), format!("query panicked after {}: {}", step.kind, p.msg)),
            }
            out.checks += 2;
        }
        if sc.diverged || !out.failures.is_empty() {
            if foreign && out.failures.is_empty() {
                out.label("stopped_at_foreign_divergence");
            }
            break;
        }
    }
    out.nontrivial = match fam {
        Fam::Index => removal_then_lookup || out.labels.iter().any(|l| l == "range_compressed" || l == "relative_depth2"),
        Fam::Cascade => nontrivial_removal,
    };
    out
}

fn cfg(tier: Tier, removal_weight: u32) -> HistCfg {
    HistCfg {
        max_ops: tier.pick(25, 60),
        text_max: tier.pick(24, 40),
        removal_weight,
        ..HistCfg::default()
    }
}

impl Property for C01 {
    type Case = History;
    fn id(&self) -> &'static str {
        "C01"
    }
    fn rule(&self) -> String {
        "case = history of add-resource / add-dataset / insert-data / annotate (nine selector kinds, relative offsets, complex selectors biased towards internally range-compressed shapes) / remove-annotation / remove-data (strict, non-strict) / remove-key / remove-resource / remove-dataset / protect-text, applied to a real store and a reference model; after every step every reverse lookup of every live item, every high-level forward view and the raw index dump (hook) are compared with a brute-force computation over the store's own forward references, and the forward references with what the model says each annotation was built with. Non-trivial = a lookup battery ran after a removal, or a complex selector was range-compressed, or a relative offset of depth >= 2 exists; distinct = distinct history JSON.".into()
    }
    fn assumptions(&self) -> Vec<String> {
        vec![
            "Multi/Composite sub-selector order is not significant (compared as multisets); Directional order is".into(),
            "offset alignment modes are not compared here (C05)".into(),
            "cascade correctness is C02: when store and model disagree on what exists the history stops without a C01 verdict".into(),
        ]
    }
    fn cases(&self, tier: Tier) -> u64 {
        tier.pick(600_000, 6_000_000)
    }
    fn strategy(&self, tier: Tier) -> BoxedStrategy<History> {
        history_strategy(cfg(tier, 4))
    }
    fn run(&self, case: &History) -> Outcome {
        run_history(case, Fam::Index)
    }
}

impl Property for C02 {
    type Case = History;
    fn id(&self) -> &'static str {
        "C02"
    }
    fn rule(&self) -> String {
        "case = history as in C01 with removals boosted (shared data, annotations on annotations, metadata annotations on keys/data/datasets); for every removal: the call returns Ok when the item exists, the live annotations/resources/datasets/keys/data afterwards equal the model's exact cascade (no over-, no under-deletion; non-strict: survivors lose only the removed datum), and a full traversal of the store, to_json_string and a SELECT ANNOTATION query complete without error or panic. Non-trivial = a removal whose target had at least one dependent annotation while at least one annotation survives; distinct = distinct history JSON.".into()
    }
    fn assumptions(&self) -> Vec<String> {
        vec![
            "cascade rule (from the rustdoc of remove_*): an annotation depends on an item if its target names it (directly or as sub-selector), if it uses removed data (strict) or lost its last datum (non-strict), or if it targets a removed annotation (transitively)".into(),
        ]
    }
    fn cases(&self, tier: Tier) -> u64 {
        tier.pick(600_000, 6_000_000)
    }
    fn strategy(&self, tier: Tier) -> BoxedStrategy<History> {
        history_strategy(cfg(tier, 9))
    }
    fn run(&self, case: &History) -> Outcome {
        run_history(case, Fam::Cascade)
    }
}
