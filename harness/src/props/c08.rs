//! C08 — stub, not built yet.

use crate::engine::*;
use proptest::prelude::*;

pub struct C08;

impl Property for C08 {
    type Case = u8;
    fn id(&self) -> &'static str {
        "C08"
    }
    fn rule(&self) -> String {
        "not built yet".into()
    }
    fn cases(&self, _tier: Tier) -> u64 {
        0
    }
    fn strategy(&self, _tier: Tier) -> BoxedStrategy<u8> {
        any::<u8>().boxed()
    }
    fn run(&self, _case: &u8) -> Outcome {
        let mut o = Outcome::new();
        o.skip("not built");
        o
    }
}
