//! C08 Query results equal the meaning of their constraints, however evaluated.
//!
//! Three kinds of cases:
//! * `Q`: a short history (store + reference model, `hist.rs`) and a typed SELECT query over the six result types
//!   with 0-3 constraints per level, up to two levels of (OPTIONAL) sub-queries linked by variables. Facets:
//!   `meaning` (three-valued reference evaluator over the model, `c08_ref.rs`), `duplicates`, `order` (every
//!   permutation of the non-LIMIT constraints: same multiset; unimplemented positions are classified
//!   `unimplemented|<type>|<kind>|<pos>`), `union` ([A OR B] = dedup(A u B)), `limit` (Q; LIMIT b e = slice of Q),
//!   `forms` (STAMQL text = built Query = Query::to_string re-parsed = iterator-API chain), `subquery` (a nested
//!   query = nested loops over single-level queries with the outer items bound as context variables).
//! * `M`: ADD / DELETE through `query_mut` against direct `annotate` / `remove_*` calls on a twin store (`mutate`).
//! * `H`: `Handles::union/intersection/contains/position` against Vec/BTreeSet and `LimitIterator::limit` against
//!   slices (`handles`).
//! * `F`: every public `filter_*` method of the six iterator traits against a predicate computed from the item-level
//!   API (`filter`, `panic`; see `c08_filt.rs`).
//!
//! Helper modules: `c08_spec.rs` (case specs, resolution, printer, builder, strategies), `c08_ref.rs` (reference
//! evaluator), `c08_run.rs` (running queries, implemented-positions table, iterator chains, handle-collection form),
//! `c08_filt.rs` (filter-method facet).

use crate::engine::*;
use crate::hist::*;
use crate::model::*;
use crate::observe::observe;
use proptest::prelude::*;
use serde::{Deserialize, Serialize};
use stam::*;
use std::collections::{BTreeMap, BTreeSet};

#[path = "c08_spec.rs"]
pub mod spec;
#[path = "c08_ref.rs"]
pub mod refeval;
#[path = "c08_run.rs"]
pub mod run;
#[path = "c08_filt.rs"]
pub mod filt;

use refeval::*;
use run::*;
use spec::*;

pub struct C08;

extern "C" {
    fn open(path: *const std::os::raw::c_char, flags: std::os::raw::c_int, ...) -> std::os::raw::c_int;
    fn dup2(a: std::os::raw::c_int, b: std::os::raw::c_int) -> std::os::raw::c_int;
    fn close(fd: std::os::raw::c_int) -> std::os::raw::c_int;
}

/// QueryIter reports every error raised while a query runs with eprintln!() ("STAM Query error: ...") and then
/// ends the iteration; the check provokes thousands of those on purpose (unimplemented constraint positions,
/// variables of the wrong type). They carry no information the check does not have, so stderr is pointed at
/// /dev/null for the duration of a C08 run (set C08_STDERR=1 to keep it). All verdicts go to stdout.
fn silence_stderr() {
    static ONCE: std::sync::Once = std::sync::Once::new();
    ONCE.call_once(|| {
        if std::env::var("C08_STDERR").is_ok() || std::env::var("C08_DEBUG").is_ok() || std::env::var("C08_TRACE").is_ok() || std::env::var("VERIF_VERBOSE").is_ok() {
            return;
        }
        unsafe {
            let fd = open(b"/dev/null\0".as_ptr() as *const std::os::raw::c_char, 1 /* O_WRONLY */);
            if fd >= 0 {
                dup2(fd, 2);
                close(fd);
            }
        }
    });
}

#[derive(Clone, Debug, Serialize, Deserialize, PartialEq)]
pub struct QCase {
    pub hist: History,
    pub q: QS,
    /// also run constraint orders that the engine does not implement (to see that they still are unimplemented)
    #[serde(default)]
    pub probe: bool,
}

#[derive(Clone, Debug, Serialize, Deserialize, PartialEq)]
pub enum MKind {
    /// DELETE <type> ?v0 { SELECT <type> ?v0 WHERE ... }
    Delete,
    /// ADD ANNOTATION ?new WITH [ID ..;] DATA set key value; TARGET ?v0 [OFFSET b e]; { SELECT ... }
    Add {
        with_id: bool,
        /// k-th live dataset, or a new one
        set: Option<u16>,
        key: u8,
        val: Val,
        offset: Option<(u8, u8)>,
    },
}

#[derive(Clone, Debug, Serialize, Deserialize, PartialEq)]
pub struct MCase {
    pub hist: History,
    pub sel: QS,
    pub kind: MKind,
}

#[derive(Clone, Debug, Serialize, Deserialize, PartialEq)]
pub struct HCase {
    pub a: Vec<u8>,
    /// build the collection with Handles::from_iter (the library decides about sortedness) instead of Handles::new(.., false, ..)
    pub a_from_iter: bool,
    pub b: Vec<u8>,
    pub b_from_iter: bool,
    pub n: u8,
    pub limits: Vec<(i8, i8)>,
}

#[derive(Clone, Debug, Serialize, Deserialize, PartialEq)]
pub struct FCase {
    pub hist: History,
    pub args: filt::FArgs,
}

#[derive(Clone, Debug, Serialize, Deserialize, PartialEq)]
pub enum Case {
    Q(QCase),
    M(MCase),
    H(HCase),
    F(FCase),
}

// ------------------------------------------------------------------------------------------
// helpers

fn sorted<T: Ord + Clone>(v: &[T]) -> Vec<T> {
    let mut v = v.to_vec();
    v.sort();
    v
}

fn has_dup<T: Ord + Clone>(v: &[T]) -> Option<T> {
    let s = sorted(v);
    s.windows(2).find(|w| w[0] == w[1]).map(|w| w[0].clone())
}

/// Python-like slice as documented for LIMIT / LimitIter: negative numbers are relative to the end, end == 0 means
/// "until the end", end is exclusive
pub fn limit_slice<T: Clone>(v: &[T], b: isize, e: isize) -> Vec<T> {
    let n = v.len() as isize;
    let lo = if b < 0 { (n + b).max(0) } else { b.min(n) };
    let hi = if e == 0 {
        n
    } else if e < 0 {
        (n + e).max(0)
    } else {
        e.min(n)
    };
    if lo < hi {
        v[lo as usize..hi as usize].to_vec()
    } else {
        vec![]
    }
}

fn permutations(n: usize) -> Vec<Vec<usize>> {
    fn rec(cur: &mut Vec<usize>, used: &mut Vec<bool>, n: usize, out: &mut Vec<Vec<usize>>) {
        if cur.len() == n {
            out.push(cur.clone());
            return;
        }
        for i in 0..n {
            if !used[i] {
                used[i] = true;
                cur.push(i);
                rec(cur, used, n, out);
                cur.pop();
                used[i] = false;
            }
        }
    }
    let mut out = vec![];
    rec(&mut vec![], &mut vec![false; n], n, &mut out);
    out
}

fn facet_of(what: &str) -> &'static str {
    match what {
        "order" => "order",
        "union" => "union",
        _ => "forms",
    }
}

fn pos_name(i: usize) -> &'static str {
    if i == 0 {
        "primary"
    } else {
        "secondary"
    }
}

fn kinds(lvl: &Lvl) -> String {
    if lvl.cons.is_empty() {
        return "none".into();
    }
    lvl.cons.iter().map(|c| c.kind()).collect::<Vec<_>>().join("+")
}

fn build_machine(hist: &History) -> Result<Machine, String> {
    let mut m = Machine::new(false);
    for op in &hist.ops {
        let step = m.apply(op);
        if let Some(p) = &step.panic {
            return Err(format!("history-panic:{}", p.file));
        }
        if step.mismatch.is_some() {
            return Err("history-mismatch".into());
        }
        if step.result.is_err() {
            return Err(format!("history-error:{}", step.kind));
        }
    }
    Ok(m)
}

// ------------------------------------------------------------------------------------------
// Q cases

struct QCtx<'a> {
    store: &'a AnnotationStore,
    model: &'a Model,
    levels: &'a [Lvl],
    probe: bool,
    out: &'a mut Outcome,
    runs: usize,
    /// number of environments for which the per-level facets were checked
    checked: Vec<usize>,
    /// the engine's answer to the root level without LIMIT in a fully implemented order (for the non-trivial rule)
    root_base: Option<Vec<It>>,
    unimplemented_level: bool,
    /// some annotation names the same referent twice in its target: whether items reached through it are
    /// reported once or twice is not documented
    dup_leaves: bool,
}

const MAX_RUNS: usize = 600;
const FACET_ENVS: [usize; 3] = [1, 3, 2];

impl<'a> QCtx<'a> {
    fn engine(&mut self, lvl: &Lvl, env: &Env, form: Form) -> Ans {
        self.runs += 1;
        run_levels(self.store, std::slice::from_ref(lvl), env, form)
    }

    fn items(ans: &Ans) -> Option<Vec<It>> {
        ans.rows().map(|rows| rows.iter().map(|r| r[0].clone()).collect())
    }

    fn envdesc(env: &Env) -> String {
        if env.is_empty() {
            String::new()
        } else {
            format!(" with {}", env.iter().map(|(n, i)| format!("?{}={}", n, i.show())).collect::<Vec<_>>().join(", "))
        }
    }

    /// Known root cause with its own signature: as first constraint `TEXT "w"` is evaluated with find_text(), which
    /// reports non-overlapping occurrences only; an item whose text is an occurrence of w that overlaps an earlier
    /// occurrence is therefore missed ("bb" at 3-5 in "acbbb"). True when every item of `items` is such an occurrence.
    fn overlapping_occurrences_only(&self, lvl: &Lvl, items: &[It]) -> bool {
        if items.is_empty() {
            return false;
        }
        let m = self.model;
        // literals of the level, including those in the arms of a disjunction (arms are always evaluated as first constraints)
        let mut lits: Vec<&CC> = vec![];
        for c in &lvl.cons {
            match c {
                CC::Text { .. } => lits.push(c),
                CC::Union(arms) => lits.extend(arms.iter().filter(|a| matches!(a, CC::Text { .. }))),
                _ => {}
            }
        }
        lits.into_iter().any(|c| {
            let CC::Text { w, mode } = c else { return false };
            if *mode % 3 == 2 {
                return false;
            }
            let fold = |s: &[char]| -> String {
                let t: String = s.iter().collect();
                if *mode % 3 == 1 {
                    t.to_lowercase()
                } else {
                    t
                }
            };
            let wf = fold(&w.chars().collect::<Vec<_>>());
            let wl = w.chars().count();
            items.iter().all(|it| {
                let range = match it {
                    It::T(r, b, e) => Some((*r, *b, *e)),
                    It::A(a) => {
                        let t = m.text_ranges(*a);
                        if t.len() == 1 {
                            Some(t[0])
                        } else {
                            None
                        }
                    }
                    _ => None,
                };
                let Some((r, b, e)) = range else { return false };
                let text = &m.res(r).text;
                if e - b != wl || fold(&text[b..e]) != wf {
                    return false;
                }
                // greedy left-to-right scan, non-overlapping
                let mut i = 0;
                while i + wl <= text.len() {
                    if fold(&text[i..i + wl]) == wf {
                        if i == b {
                            return false; // found by the scan
                        }
                        if i < b && i + wl > b {
                            return true; // swallowed by an earlier, overlapping occurrence
                        }
                        i += wl.max(1);
                    } else {
                        i += 1;
                    }
                }
                false
            })
        })
    }

    /// Are two answers to the same constraints different in a way the documentation decides? Items whose
    /// membership the reference evaluator cannot decide (None) do not count: the two evaluation paths may
    /// legitimately read the documentation differently there.
    fn definite_difference(&mut self, lvl: &Lvl, env: &Env, a: &[It], b: &[It], facet: &str) -> bool {
        if sorted(a) == sorted(b) {
            return false;
        }
        let rf = Ref { m: self.model };
        let sa: BTreeSet<It> = a.iter().cloned().collect();
        let sb: BTreeSet<It> = b.iter().cloned().collect();
        if sa == sb {
            // multiplicities differ
            if self.dup_leaves {
                self.out.dontcare += 1;
                return false;
            }
            return true;
        }
        // the items in which the answers differ and whose membership the documentation decides
        let diff: Vec<It> = sa
            .symmetric_difference(&sb)
            .filter(|it| !rf.exists(lvl.rtype, it) || and3(lvl.cons.iter().map(|c| rf.sat(lvl.rtype, it, c, env))).is_some())
            .cloned()
            .collect();
        if diff.is_empty() {
            self.out.dontcare += 1;
            self.out.label(&format!("undecided_difference:{}", facet));
            self.out.label(&format!("undecided_difference:{}:{}", RTN[lvl.rtype as usize], kinds(lvl)));
            return false;
        }
        if self.overlapping_occurrences_only(lvl, &diff) {
            self.out.fail(
                facet_of(facet),
                format!("overlapping-occurrence|{}|{}", RTN[lvl.rtype as usize], facet),
                format!(
                    "{:?}: the two evaluations differ in {} only, whose text is an occurrence of the literal that overlaps an earlier occurrence (find_text reports non-overlapping occurrences)",
                    print_levels(std::slice::from_ref(lvl)),
                    show_items(&diff)
                ),
            );
            return false;
        }
        true
    }

    /// facet checks for one level under one environment
    fn check_level(&mut self, i: usize, env: &Env) {
        let lvl = self.levels[i].clone();
        let rt = lvl.rtype;
        let rtn = RTN[rt as usize];
        let base = lvl.without_limit();
        let n = base.cons.len();
        let ed = Self::envdesc(env);

        if lvl.cons.iter().any(|c| c.has_missing()) {
            // an id that does not exist: the engine raises an error (swallowed by the iterator); what the query should
            // answer is not documented, only a panic is a failure
            self.out.label("missing_referent");
            self.out.dontcare += 1;
            if first_unimplemented(&lvl).is_none() {
                if let Ans::Panic(p) = self.engine(&lvl, env, Form::Text) {
                    self.out.fail("meaning", p.signature(), format!("{:?}{} panicked at {}:{}: {}", print_levels(std::slice::from_ref(&lvl)), ed, p.file, p.line, p.msg));
                }
            }
            return;
        }

        // ---- all orders of the non-LIMIT constraints ----------------------------------------
        let perms = permutations(n);
        let mut answers: Vec<(Vec<usize>, Lvl, Option<(usize, Impl)>, Option<Ans>)> = vec![];
        let mut probes = 0;
        for p in &perms {
            let l = base.with_cons(p.iter().map(|j| base.cons[*j].clone()).collect());
            let un = first_unimplemented(&l);
            let ans = if un.is_none() {
                Some(self.engine(&l, env, Form::Text))
            } else if self.probe && probes < 2 {
                probes += 1;
                self.out.label("probe_unimplemented");
                Some(self.engine(&l, env, Form::Text))
            } else {
                None
            };
            answers.push((p.clone(), l, un, ans));
        }
        self.out.label(&format!("perms:{}", perms.len()));
        // reference order: the first fully implemented one (the order as written comes first)
        let refidx = answers.iter().position(|a| a.2.is_none());
        let Some(refidx) = refidx else {
            self.out.label("no_implemented_order");
            self.out.label(&format!("no_implemented_order:{}", rtn));
            self.out.dontcare += 1;
            if i == 0 {
                self.unimplemented_level = true;
            }
            // still: a combination listed as unimplemented that answers with items is worth knowing about
            for a in &answers {
                if let Some(Ans::Rows(r)) = &a.3 {
                    if !r.is_empty() {
                        self.out.label("table_stale");
                    }
                }
            }
            return;
        };
        let ref_lvl = answers[refidx].1.clone();
        let ref_ans = answers[refidx].3.clone().unwrap();
        let r0 = match &ref_ans {
            Ans::Rows(_) => Self::items(&ref_ans).unwrap(),
            Ans::Err(e) => {
                self.out.fail(
                    "meaning",
                    format!("error|{}|{}", rtn, kinds(&ref_lvl)),
                    format!("{:?}{} failed: {}", print_levels(std::slice::from_ref(&ref_lvl)), ed, e),
                );
                return;
            }
            Ans::Panic(p) => {
                self.out.fail(
                    "meaning",
                    p.signature(),
                    format!("{:?}{} panicked at {}:{}: {}", print_levels(std::slice::from_ref(&ref_lvl)), ed, p.file, p.line, p.msg),
                );
                return;
            }
        };
        if i == 0 && env.is_empty() {
            self.root_base = Some(r0.clone());
        }

        // ---- meaning ---------------------------------------------------------------------------
        self.meaning(&ref_lvl, env, &r0);

        // ---- order -----------------------------------------------------------------------------
        // TEXT: which text selections without a live annotation belong to the universe depends on the source the
        // first constraint selects (all occurrences of a literal / the known selections of a resource / ...); that
        // is not pinned down, so orders are compared over the selections that carry an annotation
        let certain: Option<BTreeSet<It>> = if rt == T_TEXT { Some(Ref { m: self.model }.universe(T_TEXT).into_iter().collect()) } else { None };
        let restrict = |v: &[It]| -> Vec<It> {
            match &certain {
                Some(u) => v.iter().filter(|x| u.contains(x)).cloned().collect(),
                None => v.to_vec(),
            }
        };
        let r0_full = r0.clone();
        let r0 = restrict(&r0);
        if r0.len() != r0_full.len() {
            self.out.label("text_unannotated_results");
            self.out.dontcare += 1;
        }
        for (k, (_, l, un, ans)) in answers.iter().enumerate() {
            if k == refidx {
                continue;
            }
            let Some(ans) = ans else { continue };
            let qtext = print_levels(std::slice::from_ref(l));
            match un {
                None => {
                    self.out.checks += 1;
                    match ans {
                        Ans::Rows(_) => {
                            let r = restrict(&Self::items(ans).unwrap());
                            if self.definite_difference(&ref_lvl, env, &r, &r0, "order") {
                                let missing: Vec<It> = r0.iter().filter(|x| !r.contains(x)).cloned().collect();
                                let extra: Vec<It> = r.iter().filter(|x| !r0.contains(x)).cloned().collect();
                                let what = match (missing.is_empty(), extra.is_empty()) {
                                    (false, true) => "missing",
                                    (true, false) => "extra",
                                    (false, false) => "missing+extra",
                                    _ => "multiplicity",
                                };
                                self.out.fail(
                                    "order",
                                    format!("order|{}|primary={}|vs|primary={}|{}", rtn, l.cons[0].kind(), ref_lvl.cons[0].kind(), what),
                                    format!(
                                        "{:?} gives {} but {:?} gives {}{}",
                                        qtext,
                                        show_items(&r),
                                        print_levels(std::slice::from_ref(&ref_lvl)),
                                        show_items(&r0),
                                        ed
                                    ),
                                );
                            }
                        }
                        Ans::Err(e) => self.out.fail("order", format!("order|{}|error|primary={}", rtn, l.cons[0].kind()), format!("{:?}{}: {}", qtext, ed, e)),
                        Ans::Panic(p) => self.out.fail(
                            "order",
                            p.signature(),
                            format!("{:?}{} panicked at {}:{}: {} (the same constraints in the order {:?} answer {})", qtext, ed, p.file, p.line, p.msg, print_levels(std::slice::from_ref(&ref_lvl)), show_items(&r0)),
                        ),
                    }
                }
                Some((j, imp)) => {
                    // listed as unimplemented in this position
                    let kind = l.cons[*j].kind();
                    let sig = format!("unimplemented|{}|{}|{}", rtn, kind, pos_name(*j));
                    let empty_like = match ans {
                        Ans::Rows(r) => r.is_empty(),
                        Ans::Err(_) => true,
                        Ans::Panic(p) => *imp == Impl::Todo && p.msg.contains("not implemented"),
                    };
                    if empty_like {
                        if !r0.is_empty() {
                            self.out.fail(
                                "order",
                                sig,
                                format!(
                                    "{:?} answers {} (constraint {} is not implemented as {} constraint of a {} query) but {:?} answers {}{}",
                                    qtext,
                                    ans.show(),
                                    kind,
                                    pos_name(*j),
                                    rtn,
                                    print_levels(std::slice::from_ref(&ref_lvl)),
                                    show_items(&r0),
                                    ed
                                ),
                            );
                        }
                    } else {
                        match ans {
                            Ans::Rows(_) => {
                                self.out.label("table_stale");
                                let r = restrict(&Self::items(ans).unwrap());
                                if self.definite_difference(&ref_lvl, env, &r, &r0, "order") {
                                    self.out.fail(
                                        "order",
                                        format!("order|{}|primary={}|vs|primary={}|differs", rtn, l.cons[0].kind(), ref_lvl.cons[0].kind()),
                                        format!("{:?} gives {} but {:?} gives {}{}", qtext, show_items(&r), print_levels(std::slice::from_ref(&ref_lvl)), show_items(&r0), ed),
                                    );
                                }
                            }
                            Ans::Panic(p) => self.out.fail("order", p.signature(), format!("{:?}{} panicked at {}:{}: {}", qtext, ed, p.file, p.line, p.msg)),
                            Ans::Err(_) => {}
                        }
                    }
                }
            }
        }

        // ---- union -----------------------------------------------------------------------------
        for (p, c) in ref_lvl.cons.iter().enumerate() {
            let CC::Union(arms) = c else { continue };
            let mut union: BTreeSet<It> = BTreeSet::new();
            let mut ok = true;
            let mut arm_desc = vec![];
            for arm in arms {
                // the query with the disjunction replaced by one arm, in an order that is implemented
                let mut cons = ref_lvl.cons.clone();
                cons[p] = arm.clone();
                let mut found = None;
                for perm in permutations(cons.len()) {
                    let l = ref_lvl.with_cons(perm.iter().map(|j| cons[*j].clone()).collect());
                    if first_unimplemented(&l).is_none() {
                        found = Some(l);
                        break;
                    }
                }
                let Some(l) = found else {
                    ok = false;
                    break;
                };
                match self.engine(&l, env, Form::Text) {
                    Ans::Rows(rows) => {
                        arm_desc.push(format!("{:?} -> {}", print_levels(std::slice::from_ref(&l)), show_rows(&rows)));
                        let items: Vec<It> = rows.into_iter().map(|mut r| r.remove(0)).collect();
                        union.extend(restrict(&items));
                    }
                    _ => {
                        ok = false;
                        break;
                    }
                }
            }
            if !ok {
                self.out.dontcare += 1;
                continue;
            }
            self.out.checks += 1;
            self.out.label("union_checked");
            let got: BTreeSet<It> = r0.iter().cloned().collect();
            let union_v: Vec<It> = union.iter().cloned().collect();
            let got_v: Vec<It> = got.iter().cloned().collect();
            if (got != union && self.definite_difference(&ref_lvl, env, &got_v, &union_v, "union")) || (has_dup(&r0).is_some() && !self.dup_leaves) {
                let what = if got == union {
                    "duplicates"
                } else if got.is_subset(&union) {
                    "missing"
                } else if union.is_subset(&got) {
                    "extra"
                } else {
                    "missing+extra"
                };
                self.out.fail(
                    "union",
                    format!("union|{}|{}|{}", rtn, pos_name(p), what),
                    format!(
                        "{:?} gives {} but its arms give {}{}",
                        print_levels(std::slice::from_ref(&ref_lvl)),
                        show_items(&r0),
                        arm_desc.join("; "),
                        ed
                    ),
                );
            }
        }

        // ---- limit -----------------------------------------------------------------------------
        if let Some(p) = lvl.limit_pos() {
            let (b, e) = match &lvl.cons[p] {
                CC::Limit { b, e } => (*b, *e),
                _ => unreachable!(),
            };
            // the same order with and without the LIMIT
            let same_order_base = lvl.without_limit();
            if first_unimplemented(&lvl).is_none() && first_unimplemented(&same_order_base).is_none() {
                let unlimited = self.engine(&same_order_base, env, Form::Text);
                let limited = self.engine(&lvl, env, Form::Text);
                let class = format!(
                    "limit|{}|begin={}|end={}",
                    pos_name(p),
                    if b < 0 { "neg" } else if b == 0 { "0" } else { "pos" },
                    if e < 0 { "neg" } else if e == 0 { "0" } else { "pos" }
                );
                match (&unlimited, &limited) {
                    (Ans::Rows(_), Ans::Rows(_)) => {
                        let u = Self::items(&unlimited).unwrap();
                        let l = Self::items(&limited).unwrap();
                        self.out.checks += 1;
                        if p + 1 == lvl.cons.len() {
                            let exp = limit_slice(&u, b, e);
                            if l != exp {
                                self.out.fail(
                                    "limit",
                                    class,
                                    format!(
                                        "{:?} gives {}; without the LIMIT the answer is {} whose slice [{}:{}] is {}{}",
                                        print_levels(std::slice::from_ref(&lvl)),
                                        show_items(&l),
                                        show_items(&u),
                                        b,
                                        if e == 0 { "".to_string() } else { e.to_string() },
                                        show_items(&exp),
                                        ed
                                    ),
                                );
                            }
                        } else {
                            // LIMIT followed by further constraints: only what holds under every reading
                            self.out.label("limit_mid");
                            let rf = Ref { m: self.model };
                            let extra: Vec<It> = l
                                .iter()
                                .filter(|x| !u.contains(x) && and3(lvl.cons.iter().map(|c| rf.sat(rt, x, c, env))) == Some(false))
                                .cloned()
                                .collect();
                            if !extra.is_empty() {
                                self.out.fail(
                                    "limit",
                                    format!("{}|not-in-unlimited", class),
                                    format!("{:?} gives {} but without the LIMIT the answer is {}{}", print_levels(std::slice::from_ref(&lvl)), show_items(&l), show_items(&u), ed),
                                );
                            }
                        }
                    }
                    (_, Ans::Panic(p)) => self.out.fail("limit", p.signature(), format!("{:?}{} panicked: {}", print_levels(std::slice::from_ref(&lvl)), ed, p.msg)),
                    _ => {}
                }
            }
        }

        // ---- forms -----------------------------------------------------------------------------
        if first_unimplemented(&lvl).is_none() {
            let t = self.engine(&lvl, env, Form::Text);
            for form in [Form::Built, Form::Printed] {
                let o = self.engine(&lvl, env, form);
                self.out.checks += 1;
                let same = match (&t, &o) {
                    (Ans::Rows(a), Ans::Rows(b)) => a == b,
                    (Ans::Err(_), Ans::Err(_)) => true,
                    (Ans::Panic(a), Ans::Panic(b)) => a.signature() == b.signature(),
                    _ => false,
                };
                if !same {
                    let sig = match &o {
                        Ans::Panic(p) => p.signature(),
                        _ => format!("forms|{:?}|{}|{}", form, rtn, kinds(&lvl)),
                    };
                    self.out.fail(
                        "forms",
                        sig,
                        format!("{:?}{}: as text {} but as {:?} query {}", print_levels(std::slice::from_ref(&lvl)), ed, t.show(), form, o.show()),
                    );
                }
            }
        }
        // the built form with a handle collection in first position (where the first constraint has one)
        if first_unimplemented(&base).is_none() && !base.cons.is_empty() && !base.cons[0].has_missing() {
            if let Some((o, desc)) = run_level_collection(self.store, &base, env) {
                let t = self.engine(&base, env, Form::Text);
                self.out.checks += 1;
                self.out.label("collection_form");
                self.out.label(&format!("collection_form:{}:{}", rtn, base.cons[0].kind()));
                let qtext = print_levels(std::slice::from_ref(&base));
                match (&t, &o) {
                    (Ans::Rows(_), Ans::Rows(_)) => {
                        let (a, b) = (Self::items(&t).unwrap(), Self::items(&o).unwrap());
                        if !b.is_empty() {
                            self.out.label("collection_form_nonempty");
                        }
                        if self.definite_difference(&base, env, &b, &a, "collection") {
                            let what = if a.iter().all(|x| b.contains(x)) { "extra" } else if b.iter().all(|x| a.contains(x)) { "missing" } else { "differ" };
                            self.out.fail(
                                "forms",
                                format!("forms|Collection|{}|{}|{}", rtn, base.cons[0].kind(), what),
                                format!("{:?}{} gives {} but with its first constraint built as {} it gives {}", qtext, ed, show_items(&a), desc, show_items(&b)),
                            );
                        }
                    }
                    (_, Ans::Panic(p)) => self.out.fail("forms", p.signature(), format!("{:?}{} with its first constraint built as {} panicked at {}:{}: {}", qtext, ed, desc, p.file, p.line, p.msg)),
                    (Ans::Rows(_), Ans::Err(e)) => self.out.fail(
                        "forms",
                        format!("forms|Collection|{}|{}|error", rtn, base.cons[0].kind()),
                        format!("{:?}{} gives {} but with its first constraint built as {} it fails: {}", qtext, ed, t.show(), desc, e),
                    ),
                    _ => {}
                }
            }
        }
        if env.is_empty() {
            match chain(self.store, &ref_lvl) {
                Chain::Items(items, desc) => {
                    self.out.label("chain");
                    self.out.checks += 1;
                    let (mut a, mut b) = (items, r0.clone());
                    if rt == T_TEXT {
                        // text selections without an annotation may or may not be part of either universe
                        let uni: BTreeSet<It> = Ref { m: self.model }.universe(T_TEXT).into_iter().collect();
                        a.retain(|x| uni.contains(x));
                        b.retain(|x| uni.contains(x));
                    }
                    if self.definite_difference(&ref_lvl, env, &a, &b, "chain") {
                        let what = if b.iter().all(|x| a.contains(x)) { "query-misses" } else if a.iter().all(|x| b.contains(x)) { "chain-misses" } else { "differ" };
                        self.out.fail(
                            "forms",
                            format!("chain|{}|{}|{}", rtn, kinds(&ref_lvl), what),
                            format!("{:?} gives {} but {} gives {}", print_levels(std::slice::from_ref(&ref_lvl)), show_items(&b), desc, show_items(&a)),
                        );
                    }
                }
                Chain::Panic(p, desc) => {
                    self.out.fail("forms", p.signature(), format!("{} (for {:?}) panicked at {}:{}: {}", desc, print_levels(std::slice::from_ref(&ref_lvl)), p.file, p.line, p.msg));
                }
                Chain::Unsupported => {}
                Chain::Missing => self.out.label("chain_missing_referent"),
            }
        }
    }

    fn meaning(&mut self, lvl: &Lvl, env: &Env, r0: &[It]) {
        let rf = Ref { m: self.model };
        let rt = lvl.rtype;
        let rtn = RTN[rt as usize];
        let qtext = print_levels(std::slice::from_ref(lvl));
        let ed = Self::envdesc(env);
        if self.dup_leaves && has_dup(r0).is_some() {
            self.out.dontcare += 1;
            self.out.label("duplicates_through_double_reference");
        } else if let Some(d) = has_dup(r0) {
            self.out.fail(
                "duplicates",
                format!("duplicate|{}|primary={}", rtn, lvl.cons.first().map(|c| c.kind()).unwrap_or("none".into())),
                format!("{:?}{} returns {} more than once: {}", qtext, ed, d.show(), show_items(r0)),
            );
        }
        // soundness: everything returned exists and does not definitely violate a constraint
        for it in r0 {
            self.out.checks += 1;
            if !rf.exists(rt, it) {
                self.out.fail("meaning", format!("extra|{}|not-a-live-item", rtn), format!("{:?}{} returns {} which is not a live item", qtext, ed, it.show()));
                continue;
            }
            for (j, c) in lvl.cons.iter().enumerate() {
                match rf.sat(rt, it, c, env) {
                    Some(false) => {
                        self.out.fail(
                            "meaning",
                            format!("extra|{}|{}|{}", rtn, c.kind(), pos_name(j)),
                            format!("{:?}{} returns {} which does not satisfy `{}`; whole answer {}", qtext, ed, it.show(), c.text(), show_items(r0)),
                        );
                    }
                    None => self.out.dontcare += 1,
                    Some(true) => {}
                }
            }
        }
        // completeness: every item of the certain universe that satisfies everything is returned
        let mut candidates = rf.universe(rt);
        if rt == T_TEXT {
            // RESOURCE r OFFSET b e names its text selection whether annotated or not
            for c in &lvl.cons {
                if let CC::Resource { r, offset: Some((b, e)), .. } = c {
                    let it = It::T(*r, *b, *e);
                    if !candidates.contains(&it) && lvl.cons.len() == 1 {
                        candidates.push(it);
                    }
                }
            }
        }
        for it in &candidates {
            self.out.checks += 1;
            let all = and3(lvl.cons.iter().map(|c| rf.sat(rt, it, c, env)));
            if std::env::var("C08_DEBUG").is_ok() {
                eprintln!("  cand {} -> {:?} ({:?})", it.show(), all, lvl.cons.iter().map(|c| rf.sat(rt, it, c, env)).collect::<Vec<_>>());
            }
            match all {
                Some(true) => {
                    let text_as_primary = matches!(lvl.cons.first(), Some(CC::Text { .. }))
                        || lvl.cons.iter().any(|c| matches!(c, CC::Union(arms) if arms.iter().any(|a| matches!(a, CC::Text { .. }))));
                    if !r0.contains(it) && text_as_primary && self.overlapping_occurrences_only(lvl, std::slice::from_ref(it)) {
                        self.out.fail(
                            "meaning",
                            format!("overlapping-occurrence|{}|meaning", rtn),
                            format!("{:?}{} does not return {} whose text is an occurrence of the literal that overlaps an earlier occurrence; answer {}", qtext, ed, it.show(), show_items(r0)),
                        );
                    } else if !r0.contains(it) {
                        self.out.fail(
                            "meaning",
                            format!("missing|{}|{}", rtn, kinds(lvl)),
                            format!("{:?}{} does not return {} although it satisfies every constraint; answer {}", qtext, ed, it.show(), show_items(r0)),
                        );
                    }
                }
                None => self.out.dontcare += 1,
                Some(false) => {}
            }
        }
    }

    /// engine answer of level i (as written, LIMIT included) under env; None when it cannot be used for composition
    fn level_answer(&mut self, i: usize, env: &Env) -> Option<Vec<It>> {
        if self.runs > MAX_RUNS {
            self.out.label("budget_exhausted");
            return None;
        }
        if self.checked[i] < FACET_ENVS[i] {
            self.checked[i] += 1;
            self.check_level(i, env);
        }
        let lvl = self.levels[i].clone();
        if first_unimplemented(&lvl).is_some() {
            self.unimplemented_level = true;
            return None;
        }
        let a = self.engine(&lvl, env, Form::Text);
        Self::items(&a)
    }

    /// nested loops; bool: the expectation is certain
    fn expected_rows(&mut self, i: usize, env: &mut Env) -> Option<(Vec<Vec<It>>, bool)> {
        let items = self.level_answer(i, env)?;
        let depth = self.levels.len();
        if i + 1 == depth {
            return Some((items.into_iter().map(|x| vec![x]).collect(), true));
        }
        let mut rows = vec![];
        let mut certain = true;
        for o in items {
            env.push((self.levels[i].name.clone(), o.clone()));
            let inner = self.expected_rows(i + 1, env);
            let direct = if self.levels[i + 1].optional && i + 2 < depth {
                // did the optional level itself have items?
                self.level_answer(i + 1, env).map(|v| !v.is_empty())
            } else {
                None
            };
            env.pop();
            let (inner, c) = inner?;
            certain &= c;
            if inner.is_empty() {
                if self.levels[i + 1].optional {
                    if direct == Some(true) {
                        // the optional sub-query had results but its own (non-optional) sub-query eliminated them all:
                        // whether the outer row survives is not documented
                        certain = false;
                    }
                    let mut r = vec![o.clone()];
                    while r.len() < depth - i {
                        r.push(It::None);
                    }
                    rows.push(r);
                }
            } else {
                for r in inner {
                    let mut row = vec![o.clone()];
                    row.extend(r);
                    rows.push(row);
                }
            }
        }
        Some((rows, certain))
    }
}

fn run_q(case: &QCase) -> Outcome {
    let mut out = Outcome::new();
    out.label("case:query");
    let machine = match build_machine(&case.hist) {
        Ok(m) => m,
        Err(e) => {
            out.skip(&e);
            return out;
        }
    };
    let mut resolver = Resolver { m: &machine.model, dropped: 0, n_anchored: 0, n_free: 0, n_underivable: 0 };
    let levels = resolver.levels(&case.q);
    if resolver.dropped > 0 {
        out.label("dropped_constraint");
    }
    let fully_anchored = resolver.n_free == 0 && resolver.n_anchored > 0;
    if fully_anchored {
        out.label("fully_anchored");
    }
    out.label(&format!("type:{}", RTN[levels[0].rtype as usize]));
    out.label(&format!("levels:{}", levels.len()));
    let mut ncons = 0;
    for (i, l) in levels.iter().enumerate() {
        if i > 0 {
            out.label(&format!("subtype:{}", RTN[l.rtype as usize]));
            out.label(&format!("link:{}>{}", RTN[levels[i - 1].rtype as usize], RTN[l.rtype as usize]));
            if l.cons.iter().any(|c| c.uses_var()) {
                out.label("sub_linked");
            } else {
                out.label("sub_unlinked");
            }
        }
        if l.optional {
            out.label("optional");
        }
        for c in &l.cons {
            out.label(&format!("kind:{}", c.kind()));
            if let CC::Union(arms) = c {
                for a in arms {
                    out.label(&format!("arm:{}", a.kind()));
                }
            }
            if let CC::Limit { b, e } = c {
                out.label("limit");
                if *b < 0 || *e < 0 {
                    out.label("limit_negative");
                }
            }
            if !c.is_limit() {
                ncons += 1;
            }
        }
        out.label(&format!("ncons:{}", l.cons.iter().filter(|c| !c.is_limit()).count()));
    }
    let full_text = print_levels(&levels);
    let mut ctx = QCtx {
        store: &machine.store,
        model: &machine.model,
        levels: &levels,
        probe: case.probe,
        out: &mut out,
        runs: 0,
        checked: vec![0; 3],
        root_base: None,
        unimplemented_level: false,
        dup_leaves: machine.model.live_anns().into_iter().any(|a| {
            let keys: Vec<(u8, usize, usize, usize)> = machine
                .model
                .ann(a)
                .target
                .leaves()
                .into_iter()
                .map(|l| match l {
                    MSel::Text { res, begin, end, .. } => (0u8, *res, *begin, *end),
                    MSel::Ann { ann, .. } => (1, *ann, 0, 0),
                    MSel::Res(r) => (2, *r, 0, 0),
                    MSel::Set(s) => (3, *s, 0, 0),
                    MSel::Key(s, k) => (4, *s, *k, 0),
                    MSel::Data(s, d) => (5, *s, *d, 0),
                    _ => (6, 0, 0, 0),
                })
                .collect();
            has_dup(&keys).is_some() || has_dup(&machine.model.ann(a).target.texts()).is_some()
        }),
    };
    let mut env: Env = vec![];
    let expected = ctx.expected_rows(0, &mut env);
    let unimplemented_level = ctx.unimplemented_level;
    let root_base = ctx.root_base.clone();
    let runs = ctx.runs;
    drop(ctx);

    // ---- subquery facet: the nested query against nested loops over single levels -------------
    if levels.len() > 1 {
        if unimplemented_level {
            out.label("sub_unimplemented_level");
        } else if let Some((exp, certain)) = expected {
            let got = run_levels(&machine.store, &levels, &[], Form::Text);
            let shape = levels
                .iter()
                .map(|l| format!("{}{}", if l.optional { "OPTIONAL_" } else { "" }, RTN[l.rtype as usize]))
                .collect::<Vec<_>>()
                .join(">");
            match &got {
                Ans::Rows(rows) => {
                    if !certain {
                        out.dontcare += 1;
                        out.label("sub_uncertain");
                    } else {
                        out.checks += 1;
                        out.label("sub_checked");
                        if !exp.is_empty() {
                            out.label("sub_nonempty");
                        }
                        if exp.iter().any(|r| r.contains(&It::None)) {
                            out.label("sub_optional_unmatched");
                        }
                        if *rows != exp {
                            let class = if rows.len() < exp.len() && exp[..rows.len()] == rows[..] {
                                if rows.last().map(|r| r.contains(&It::None)).unwrap_or(false) {
                                    "stops-after-unmatched-optional"
                                } else {
                                    "stops-early"
                                }
                            } else if sorted(rows) == sorted(&exp) {
                                "row-order"
                            } else if rows.iter().all(|r| exp.contains(r)) {
                                "rows-missing"
                            } else {
                                "rows-differ"
                            };
                            out.fail(
                                "subquery",
                                format!(
                                    "subquery|{}|{}",
                                    if !levels.iter().any(|l| l.optional) {
                                        "plain"
                                    } else if exp.iter().any(|r| r.contains(&It::None)) {
                                        "optional-unmatched"
                                    } else {
                                        "optional-matched"
                                    },
                                    class
                                ),
                                format!(
                                    "{:?} ({}) gives {} but evaluating the levels one by one (outer items bound as context variables) gives {}",
                                    full_text,
                                    shape,
                                    show_rows(rows),
                                    show_rows(&exp)
                                ),
                            );
                        }
                    }
                    // the built form of the nested query
                    let built = run_levels(&machine.store, &levels, &[], Form::Built);
                    out.checks += 1;
                    if let Ans::Rows(b) = &built {
                        if b != rows {
                            out.fail("forms", format!("forms|Built|nested|{}", shape), format!("{:?}: as text {} but built {}", full_text, show_rows(rows), show_rows(b)));
                        }
                    } else {
                        out.fail("forms", format!("forms|Built|nested|{}", shape), format!("{:?}: as text {} but built {}", full_text, show_rows(rows), built.show()));
                    }
                }
                Ans::Panic(p) => out.fail("subquery", p.signature(), format!("{:?} panicked at {}:{}: {}", full_text, p.file, p.line, p.msg)),
                Ans::Err(e) => out.fail("subquery", format!("subquery|error|{}", shape), format!("{:?}: {}", full_text, e)),
            }
        } else {
            out.label("sub_no_expectation");
        }
    }

    // ---- non-trivial rule ----------------------------------------------------------------------
    if let Some(r0) = &root_base {
        let universe = Ref { m: &machine.model }.universe(levels[0].rtype).len();
        if std::env::var("C08_TRACE").is_ok() {
            eprintln!("TRACE {} of {} {}:: {} :: {:?}", r0.len(), universe, if fully_anchored { "ANCH " } else { "" }, full_text, serde_json::to_string(case).unwrap());
        }
        if !r0.is_empty() {
            out.label("nonempty");
        } else {
            out.label("empty");
            if fully_anchored {
                out.label("empty_though_anchored");
            }
            if universe == 0 {
                out.label("empty_universe");
            }
        }
        let strict = !r0.is_empty() && sorted(r0).windows(2).all(|w| w[0] != w[1]) && r0.len() < universe;
        if strict {
            out.label("strict_subset");
        }
        if (ncons >= 2 || levels.len() > 1) && strict {
            out.nontrivial = true;
            out.label("nontrivial");
        }
    }
    out.label(&format!("runs:{}", if runs < 10 { "<10" } else if runs < 50 { "<50" } else if runs < 200 { "<200" } else { ">=200" }));
    out
}

// ------------------------------------------------------------------------------------------
// M cases

fn selector_for(it: &It, offset: Option<Offset>) -> Option<SelectorBuilder<'static>> {
    Some(match it {
        It::T(r, b, e) => {
            let (b, e) = match &offset {
                Some(Offset { begin: Cursor::BeginAligned(ob), end: Cursor::BeginAligned(oe) }) => {
                    if b + oe > *e || ob > oe {
                        return None; // the relative offset does not lie within the text selection
                    }
                    (b + ob, b + oe)
                }
                Some(_) => return None,
                None => (*b, *e),
            };
            SelectorBuilder::TextSelector(BuildItem::Handle(TextResourceHandle::new(*r)), Offset::simple(b, e))
        }
        It::A(a) => SelectorBuilder::AnnotationSelector(BuildItem::Handle(AnnotationHandle::new(*a)), offset),
        It::R(r) => SelectorBuilder::ResourceSelector(BuildItem::Handle(TextResourceHandle::new(*r))),
        It::S(s) => SelectorBuilder::DataSetSelector(BuildItem::Handle(AnnotationDataSetHandle::new(*s))),
        It::D(s, d) => SelectorBuilder::AnnotationDataSelector(
            BuildItem::Handle(AnnotationDataSetHandle::new(*s)),
            BuildItem::Handle(AnnotationDataHandle::new(*d)),
        ),
        It::K(s, k) => SelectorBuilder::DataKeySelector(BuildItem::Handle(AnnotationDataSetHandle::new(*s)), BuildItem::Handle(DataKeyHandle::new(*k))),
        It::None => return None,
    })
}

fn remove_direct(store: &mut AnnotationStore, it: &It, strict: bool) -> Result<bool, String> {
    // Ok(false): the item is already gone (removed along with an earlier one)
    let r = match it {
        It::A(a) => {
            if store.annotation(AnnotationHandle::new(*a)).is_none() {
                return Ok(false);
            }
            store.remove_annotation(AnnotationHandle::new(*a))
        }
        It::R(r) => {
            if store.resource(TextResourceHandle::new(*r)).is_none() {
                return Ok(false);
            }
            store.remove_resource(TextResourceHandle::new(*r))
        }
        It::S(s) => {
            if store.dataset(AnnotationDataSetHandle::new(*s)).is_none() {
                return Ok(false);
            }
            store.remove_dataset(AnnotationDataSetHandle::new(*s))
        }
        It::K(s, k) => {
            if store.key(AnnotationDataSetHandle::new(*s), DataKeyHandle::new(*k)).is_none() {
                return Ok(false);
            }
            store.remove_key(AnnotationDataSetHandle::new(*s), DataKeyHandle::new(*k), strict)
        }
        It::D(s, d) => {
            if store.annotationdata(AnnotationDataSetHandle::new(*s), AnnotationDataHandle::new(*d)).is_none() {
                return Ok(false);
            }
            store.remove_data(AnnotationDataSetHandle::new(*s), AnnotationDataHandle::new(*d), strict)
        }
        _ => return Ok(false),
    };
    r.map(|_| true).map_err(|e| format!("{}", e))
}

fn obs_diff(a: &crate::observe::Obs, b: &crate::observe::Obs) -> String {
    fn first<T: PartialEq + std::fmt::Debug>(what: &str, x: &[T], y: &[T]) -> Option<String> {
        if x.len() != y.len() {
            return Some(format!("{} {} vs {}", x.len(), what, y.len()));
        }
        for (p, q) in x.iter().zip(y.iter()) {
            if p != q {
                let (mut p, mut q) = (format!("{:?}", p), format!("{:?}", q));
                p.truncate(600);
                q.truncate(600);
                return Some(format!("{}: {} VERSUS {}", what, p, q));
            }
        }
        None
    }
    first("annotations", &a.anns, &b.anns)
        .or_else(|| first("datasets", &a.sets, &b.sets))
        .or_else(|| first("resources", &a.resources, &b.resources))
        .or_else(|| first("index counts", &a.index_totalcount, &b.index_totalcount))
        .unwrap_or_else(|| "equal".into())
}

/// bind the context variables of `env` on the (outer) query
fn bind_env(q: &mut Query<'_>, store: &AnnotationStore, env: &[(String, It)]) -> Result<(), String> {
    for (name, it) in env {
        match materialise(store, it) {
            Some(item) => q.bind_from_result(name.as_str(), &item),
            None => return Err(format!("context item {} does not exist", it.show())),
        }
    }
    Ok(())
}

fn run_m(case: &MCase) -> Outcome {
    let mut out = Outcome::new();
    out.label("case:mutate");
    let (mut m1, mut m2) = match (build_machine(&case.hist), build_machine(&case.hist)) {
        (Ok(a), Ok(b)) => (a, b),
        (Err(e), _) | (_, Err(e)) => {
            out.skip(&e);
            return out;
        }
    };
    let mut resolver = Resolver { m: &m1.model, dropped: 0, n_anchored: 0, n_free: 0, n_underivable: 0 };
    let mut levels = resolver.levels(&case.sel);
    levels.truncate(1);
    let mut lvl = levels.remove(0);
    match &case.kind {
        MKind::Delete => {
            if lvl.rtype == T_TEXT {
                // text selections cannot be deleted
                lvl.rtype = T_ANN;
                lvl.cons.clear();
            }
        }
        MKind::Add { .. } => {}
    }
    // one case in three hands a referent to the mutating query as a *context variable* (Query::bind_*var) instead of
    // naming it by id: the variable has to reach the SELECT sub-query
    let mut env: Vec<(String, It)> = vec![];
    if case.hist.ops.len() % 3 == 1 {
        for c in lvl.cons.iter_mut() {
            let repl = match c {
                CC::Resource { r, meta, offset, .. } => Some((CC::VarResource { var: "ctx".into(), meta: *meta, offset: *offset }, It::R(*r))),
                CC::Annotation { a, meta, rec, .. } => Some((CC::VarAnnotation { var: "ctx".into(), meta: *meta, rec: *rec }, It::A(*a))),
                CC::DataSet { s, meta: false, .. } => Some((CC::VarDataSet { var: "ctx".into() }, It::S(*s))),
                _ => None,
            };
            if let Some((nc, it)) = repl {
                *c = nc;
                env.push(("ctx".to_string(), it));
                out.label("m_context_variable");
                break;
            }
        }
    }
    let rtn = RTN[lvl.rtype as usize];
    out.label(&format!("mtype:{}", rtn));
    if first_unimplemented(&lvl).is_some() {
        out.label("m_unimplemented_select");
        out.dontcare += 1;
        return out;
    }
    let select_text = print_levels(std::slice::from_ref(&lvl));
    // what the selection selects (on the twin, before anything changes)
    let selected: Vec<It> = match run_level(&m2.store, &lvl, &env, Form::Text) {
        Ok(v) => v,
        Err(a) => {
            out.label("m_select_failed");
            if let Ans::Panic(p) = a {
                out.fail("mutate", p.signature(), format!("{:?} panicked: {}", select_text, p.msg));
            }
            return out;
        }
    };
    if selected.is_empty() {
        out.label("m_empty_selection");
    } else {
        out.label("m_nonempty_selection");
    }
    if selected.len() > 1 {
        out.label("m_multi_selection");
    }
    // DELETE of data selected through a nested query: the same data item comes back in one row per annotation using it
    const NESTED_DATA: &str = "SELECT ANNOTATION ?w { SELECT DATA ?v0 WHERE ANNOTATION ?w; }";
    let nested_rows = matches!(case.kind, MKind::Delete) && lvl.rtype == T_DATA && case.hist.ops.len() % 4 == 2;
    let selected: Vec<It> = if nested_rows {
        out.label("delete_nested_rows");
        let r = catch(|| -> Result<(Vec<It>, usize), String> {
            let (q, _) = Query::parse(NESTED_DATA).map_err(|e| format!("{}", e))?;
            let mut v: Vec<It> = vec![];
            let mut rows = 0;
            for row in m2.store.query(q).map_err(|e| format!("{}", e))? {
                if let Ok(QueryResultItem::AnnotationData(d)) = row.get_by_name("v0") {
                    rows += 1;
                    let it = It::D(d.set().handle().as_usize(), d.handle().as_usize());
                    if !v.contains(&it) {
                        v.push(it);
                    }
                }
            }
            Ok((v, rows))
        });
        match r {
            Ok(Ok((v, rows))) => {
                if rows > v.len() {
                    out.label("delete_item_in_several_rows");
                }
                v
            }
            _ => {
                out.label("m_select_failed");
                return out;
            }
        }
    } else {
        selected
    };
    let before = observe(&m1.store);
    match &case.kind {
        MKind::Delete => {
            out.label("delete");
            let qtext = format!("DELETE {} ?v0 {{ {} }}", rtn, select_text);
            // DELETE in STAMQL text exists for annotations only; other types through the programmatic form
            let use_text = lvl.rtype == T_ANN && case.hist.ops.len() % 2 == 0;
            let lv = [lvl.clone()];
            let qtext = if nested_rows { format!("DELETE DATA ?v0 {{ {} }} [built]", NESTED_DATA) } else { qtext };
            let res = catch(|| {
                if nested_rows {
                    let (sub, _) = Query::parse(NESTED_DATA).map_err(|e| format!("parse: {}", e))?;
                    let q = Query::new(QueryType::Delete, Some(Type::AnnotationData), Some("v0")).with_subquery(sub);
                    m1.store.query_mut(q).map(|it| it.count()).map_err(|e| format!("{}", e))
                } else if use_text {
                    let (mut q, rest) = Query::parse(qtext.as_str()).map_err(|e| format!("parse: {}", e))?;
                    if !rest.trim().is_empty() {
                        return Err(format!("parse left {:?}", rest));
                    }
                    bind_env(&mut q, &m1.store, &env)?;
                    m1.store.query_mut(q).map(|it| it.count()).map_err(|e| format!("{}", e))
                } else {
                    let mut q = Query::new(QueryType::Delete, Some(rtype_of(lvl.rtype)), Some("v0")).with_subquery(build_levels(&lv));
                    bind_env(&mut q, &m1.store, &env)?;
                    m1.store.query_mut(q).map(|it| it.count()).map_err(|e| format!("{}", e))
                }
            });
            let strict_matters = matches!(lvl.rtype, T_KEY | T_DATA);
            // twins: direct calls
            let mut twin_obs = vec![];
            let variants: &[bool] = if strict_matters { &[true, false] } else { &[true] };
            for strict in variants {
                let mut t = build_machine(&case.hist).expect("history replays");
                let mut err = None;
                for it in &selected {
                    match catch(|| remove_direct(&mut t.store, it, *strict)) {
                        Ok(Ok(_)) => {}
                        Ok(Err(e)) => {
                            err = Some(e);
                            break;
                        }
                        Err(p) => {
                            err = Some(format!("panic {}", p.msg));
                            break;
                        }
                    }
                }
                if let Some(e) = err {
                    out.label("m_direct_failed");
                    out.skip(&format!("direct-removal-failed:{}", rtn));
                    let _ = e;
                    return out;
                }
                twin_obs.push(observe(&t.store));
            }
            let _ = &mut m2;
            match res {
                Err(p) => out.fail("mutate", p.signature(), format!("{:?} panicked at {}:{}: {}", qtext, p.file, p.line, p.msg)),
                Ok(r) => {
                    let after = observe(&m1.store);
                    out.checks += 1;
                    let matches_twin = twin_obs.iter().any(|t| *t == after);
                    if twin_obs.len() == 2 && twin_obs[0] != twin_obs[1] {
                        out.dontcare += 1;
                        out.label("m_strictness_matters");
                    }
                    if let Err(e) = &r {
                        out.fail(
                            "mutate",
                            format!("delete|{}|error|{}", rtn, if after == before { "unchanged" } else if matches_twin { "complete" } else { "partial" }),
                            format!("{:?} selects {} and fails with {:?}; {} item(s) of the store changed", qtext, show_items(&selected), e, if after == before { "no" } else { "some" }),
                        );
                    } else if !matches_twin {
                        let class = if after == before && !selected.is_empty() { "no-effect" } else { "differs" };
                        let gone = |o: &crate::observe::Obs| format!("{} annotations, {} datasets, {} resources", o.anns.len(), o.sets.len(), o.resources.len());
                        out.fail(
                            "mutate",
                            format!("delete|{}|{}", rtn, class),
                            format!(
                                "{:?} selects {}; afterwards the store has {}, removing the selected items directly leaves {}; first difference: {}",
                                qtext,
                                show_items(&selected),
                                gone(&after),
                                gone(&twin_obs[0]),
                                obs_diff(&after, &twin_obs[0])
                            ),
                        );
                    } else if !selected.is_empty() {
                        out.nontrivial = true;
                    }
                }
            }
        }
        MKind::Add { with_id, set, key, val, offset } => {
            out.label("add");
            let live_sets = m1.model.live_sets();
            let setid = match set {
                Some(p) if !live_sets.is_empty() => m1.model.set(live_sets[pick(*p, live_sets.len())]).id.clone(),
                _ => "newset".to_string(),
            };
            let keyid = KEYS[*key as usize % 6].to_string();
            let val = match val {
                Val::Str(s) if s.contains('"') || s.ends_with('\\') || s.contains('|') || matches!(s.as_str(), "null" | "any" | "true" | "false") => Val::Str("v".into()),
                Val::List(_) | Val::Dt(_) => Val::Null,
                v => v.clone(),
            };
            let offset = match (lvl.rtype, offset) {
                (T_TEXT, Some((b, e))) | (T_ANN, Some((b, e))) => Some(((*b % 3) as usize, (*b % 3) as usize + (*e % 3) as usize)),
                _ => None,
            };
            let mut assigns = String::new();
            let with_id = *with_id && selected.len() <= 1;
            if with_id {
                assigns.push_str("ID \"newann\"; ");
            }
            match &val {
                Val::Null => assigns.push_str(&format!("DATA \"{}\" \"{}\"; ", setid, keyid)),
                Val::Str(s) => assigns.push_str(&format!("DATA \"{}\" \"{}\" \"{}\"; ", setid, keyid, s)),
                Val::Bool(b) => assigns.push_str(&format!("DATA \"{}\" \"{}\" {}; ", setid, keyid, b)),
                Val::Int(i) => assigns.push_str(&format!("DATA \"{}\" \"{}\" {}; ", setid, keyid, i)),
                Val::Float(f) => assigns.push_str(&format!("DATA \"{}\" \"{}\" {}; ", setid, keyid, float_text(*f))),
                _ => {}
            }
            match offset {
                Some((b, e)) => assigns.push_str(&format!("TARGET ?v0 OFFSET {} {}; ", b, e)),
                None => assigns.push_str("TARGET ?v0; "),
            }
            let qtext = format!("ADD ANNOTATION ?new WITH {}{{ {} }}", assigns, select_text);
            let res = catch(|| {
                let (mut q, rest) = Query::parse(qtext.as_str()).map_err(|e| format!("parse: {}", e))?;
                if !rest.trim().is_empty() {
                    return Err(format!("parse left {:?}", rest));
                }
                bind_env(&mut q, &m1.store, &env)?;
                m1.store.query_mut(q).map(|it| it.count()).map_err(|e| format!("{}", e))
            });
            // twin: direct annotate per selected item
            let mut twin_err = None;
            for it in &selected {
                let off = offset.map(|(b, e)| Offset::simple(b, e));
                let Some(sel) = selector_for(it, off) else {
                    twin_err = Some("offset outside the selected text".to_string());
                    break;
                };
                let mut b = AnnotationBuilder::new().with_target(sel);
                if with_id {
                    b = b.with_id("newann");
                }
                b = b.with_data_builder(
                    AnnotationDataBuilder::new()
                        .with_dataset(BuildItem::Id(setid.clone()))
                        .with_key(BuildItem::Id(keyid.clone()))
                        .with_value(val.to_stam()),
                );
                match catch(|| m2.store.annotate(b)) {
                    Ok(Ok(_)) => {}
                    Ok(Err(e)) => {
                        twin_err = Some(format!("{}", e));
                        break;
                    }
                    Err(p) => {
                        twin_err = Some(format!("panic: {}", p.msg));
                        break;
                    }
                }
            }
            match res {
                Err(p) => out.fail("mutate", p.signature(), format!("{:?} panicked at {}:{}: {}", qtext, p.file, p.line, p.msg)),
                Ok(r) => {
                    out.checks += 1;
                    match (&r, &twin_err) {
                        (Ok(n), None) => {
                            let after = observe(&m1.store);
                            let twin = observe(&m2.store);
                            if after != twin {
                                out.fail(
                                    "mutate",
                                    format!("add|{}|differs", rtn),
                                    format!(
                                        "{:?} (selection {}) leaves {} annotations; the direct annotate() calls leave {}; first difference: {}",
                                        qtext,
                                        show_items(&selected),
                                        after.anns.len(),
                                        twin.anns.len(),
                                        obs_diff(&after, &twin)
                                    ),
                                );
                            } else if *n != selected.len() {
                                out.fail("mutate", format!("add|{}|result-count", rtn), format!("{:?} returned {} rows for {} new annotations", qtext, n, selected.len()));
                            } else if !selected.is_empty() {
                                out.nontrivial = true;
                            }
                        }
                        (Err(_), Some(_)) => {
                            out.label("m_both_failed");
                            out.dontcare += 1;
                        }
                        (Ok(_), Some(e)) => {
                            if selected.is_empty() {
                                out.dontcare += 1;
                            } else {
                                out.fail("mutate", format!("add|{}|query-ok-direct-fails", rtn), format!("{:?} succeeds but the direct annotate() fails: {}", qtext, e));
                            }
                        }
                        (Err(e), None) => {
                            if selected.is_empty() && e.contains("TARGET") {
                                // nothing selected, nothing to add
                                out.dontcare += 1;
                            } else {
                                out.fail("mutate", format!("add|{}|query-fails-direct-ok", rtn), format!("{:?} (selection {}) fails: {} but the direct annotate() calls succeed", qtext, show_items(&selected), e));
                            }
                        }
                    }
                }
            }
        }
    }
    out
}

// ------------------------------------------------------------------------------------------
// H cases

fn dedup_keep_order(v: &[u8]) -> Vec<u8> {
    let mut out = vec![];
    for x in v {
        if !out.contains(x) {
            out.push(*x);
        }
    }
    out
}

fn is_sorted(v: &[usize]) -> bool {
    v.windows(2).all(|w| w[0] <= w[1])
}

fn run_h(case: &HCase) -> Outcome {
    let mut out = Outcome::new();
    out.label("case:handles");
    out.nontrivial = true;
    let store = AnnotationStore::default();
    let a = dedup_keep_order(&case.a);
    let b = dedup_keep_order(&case.b);
    let mk = |v: &[u8], from_iter: bool| -> Handles<Annotation> {
        let hs: Vec<AnnotationHandle> = v.iter().map(|x| AnnotationHandle::new(*x as usize)).collect();
        if from_iter {
            Handles::from_iter(hs.into_iter(), &store)
        } else {
            Handles::new(std::borrow::Cow::Owned(hs), false, &store)
        }
    };
    let vals = |h: &Handles<Annotation>| -> Vec<usize> { h.iter().map(|x| x.as_usize()).collect() };
    let flags = |h: &Handles<Annotation>, g: &Handles<Annotation>| format!("sorted={},{}", h.returns_sorted() as u8, g.returns_sorted() as u8);
    let au: Vec<usize> = a.iter().map(|x| *x as usize).collect();
    let bu: Vec<usize> = b.iter().map(|x| *x as usize).collect();
    let consistent = |h: &Handles<Annotation>, out: &mut Outcome, what: &str, sig: &str| {
        let v = vals(h);
        for x in 0..20usize {
            out.checks += 1;
            let c = h.contains(&AnnotationHandle::new(x));
            if c != v.contains(&x) {
                out.fail("handles", format!("{}|contains-inconsistent", sig), format!("{}: {:?} (sorted flag {}) contains({}) = {}", what, v, h.returns_sorted(), x, c));
                break;
            }
            let p = h.position(&AnnotationHandle::new(x));
            if p != v.iter().position(|y| *y == x) {
                out.fail("handles", format!("{}|position-inconsistent", sig), format!("{}: {:?} position({}) = {:?}", what, v, x, p));
                break;
            }
        }
        if h.returns_sorted() && !is_sorted(&v) {
            out.fail("handles", format!("{}|claims-sorted", sig), format!("{}: {:?} claims to be sorted", what, v));
        }
    };
    // contains / position on the inputs
    {
        let ha = mk(&a, case.a_from_iter);
        consistent(&ha, &mut out, "collection", "contains");
        if ha.returns_sorted() {
            out.label("h_sorted_input");
        } else {
            out.label("h_unsorted_input");
        }
    }
    // union
    {
        let mut ha = mk(&a, case.a_from_iter);
        let hb = mk(&b, case.b_from_iter);
        let sig = format!("union|{}", flags(&ha, &hb));
        match catch(|| {
            ha.union(&hb);
            ha
        }) {
            Err(p) => out.fail("handles", p.signature(), format!("{:?} union {:?} panicked: {}", au, bu, p.msg)),
            Ok(ha) => {
                let got = vals(&ha);
                out.checks += 1;
                let exp: BTreeSet<usize> = au.iter().chain(bu.iter()).cloned().collect();
                let gs: BTreeSet<usize> = got.iter().cloned().collect();
                if has_dup(&got).is_some() {
                    out.fail("handles", format!("{}|duplicate", sig), format!("{:?} union {:?} = {:?}", au, bu, got));
                } else if gs != exp {
                    out.fail("handles", format!("{}|wrong-set", sig), format!("{:?} union {:?} = {:?}", au, bu, got));
                } else if !ha.returns_sorted() {
                    // retains order: the items of the first collection stay in front, in their order
                    if got[..au.len().min(got.len())] != au[..] {
                        out.fail("handles", format!("{}|order-not-retained", sig), format!("{:?} union {:?} = {:?}", au, bu, got));
                    }
                }
                consistent(&ha, &mut out, &format!("{:?} union {:?}", au, bu), &sig);
            }
        }
    }
    // intersection
    {
        let mut ha = mk(&a, case.a_from_iter);
        let hb = mk(&b, case.b_from_iter);
        let sig = format!("intersection|{}", flags(&ha, &hb));
        match catch(|| {
            ha.intersection(&hb);
            ha
        }) {
            Err(p) => out.fail("handles", p.signature(), format!("{:?} intersection {:?} panicked: {}", au, bu, p.msg)),
            Ok(ha) => {
                let got = vals(&ha);
                out.checks += 1;
                let exp: BTreeSet<usize> = au.iter().filter(|x| bu.contains(x)).cloned().collect();
                let gs: BTreeSet<usize> = got.iter().cloned().collect();
                if has_dup(&got).is_some() {
                    out.fail("handles", format!("{}|duplicate", sig), format!("{:?} intersection {:?} = {:?}", au, bu, got));
                } else if gs != exp {
                    let what = if gs.is_subset(&exp) { "missing" } else { "extra" };
                    out.fail("handles", format!("{}|{}", sig, what), format!("{:?} intersection {:?} = {:?}", au, bu, got));
                }
                consistent(&ha, &mut out, &format!("{:?} intersection {:?}", au, bu), &sig);
            }
        }
    }
    // LimitIterator
    let n = (case.n % 12) as usize;
    let seq: Vec<usize> = (0..n).collect();
    for (b, e) in &case.limits {
        let (b, e) = (*b as isize, *e as isize);
        out.checks += 1;
        let sig = format!(
            "limititer|begin={}|end={}",
            if b < 0 { "neg" } else if b == 0 { "0" } else { "pos" },
            if e < 0 { "neg" } else if e == 0 { "0" } else { "pos" }
        );
        match catch(|| seq.clone().into_iter().limit(b, e).collect::<Vec<usize>>()) {
            Err(p) => out.fail("handles", p.signature(), format!("(0..{}).limit({}, {}) panicked: {}", n, b, e, p.msg)),
            Ok(got) => {
                let exp = limit_slice(&seq, b, e);
                if got != exp {
                    out.fail("handles", sig, format!("(0..{}).limit({}, {}) = {:?}, the slice is {:?}", n, b, e, got, exp));
                }
            }
        }
    }
    out
}

// ------------------------------------------------------------------------------------------
// F cases

fn run_f(case: &FCase) -> Outcome {
    let mut out = Outcome::new();
    out.label("case:filter");
    let mut machine = match build_machine(&case.hist) {
        Ok(m) => m,
        Err(e) => {
            out.skip(&e);
            return out;
        }
    };
    if case.args.sizes & 0x2000 != 0 {
        // two sub-stores (in memory only) with some annotations, resources and data sets assigned to them, so that
        // filter_substore() has something to tell apart
        let mask = case.args.mask;
        let bit = |i: usize, shift: usize| (mask >> ((i + shift) % 32)) & 1 == 1;
        let store = &mut machine.store;
        let r = catch(|| -> Result<(), StamError> {
            let s1 = store.add_new_substore("sub1", "sub1.store.stam.json")?;
            let s2 = store.add_new_substore("sub2", "sub2.store.stam.json")?;
            let anns: Vec<AnnotationHandle> = store.annotations().map(|a| a.handle()).collect();
            for (i, a) in anns.into_iter().enumerate() {
                if bit(i, 3) {
                    store.associate_substore(a, if bit(i, 17) { s1 } else { s2 })?;
                }
            }
            let ress: Vec<TextResourceHandle> = store.resources().map(|r| r.handle()).collect();
            for (i, r) in ress.into_iter().enumerate() {
                if bit(i, 7) {
                    store.associate_substore(r, if bit(i, 19) { s1 } else { s2 })?;
                }
            }
            let sets: Vec<AnnotationDataSetHandle> = store.datasets().map(|s| s.handle()).collect();
            for (i, s) in sets.into_iter().enumerate() {
                if bit(i, 11) {
                    store.associate_substore(s, if bit(i, 23) { s1 } else { s2 })?;
                }
            }
            Ok(())
        });
        match r {
            Ok(Ok(())) => out.label("f:substores"),
            _ => out.label("f:substores_failed"),
        }
    }
    filt::run_filters(&machine.store, &case.args, &mut out);
    // development aid: C08_SURVEY=<file> appends every failure of an F case to that file and lets the run continue,
    // so that one run lists all failing (trait, method) signatures instead of the first one
    if let Ok(path) = std::env::var("C08_SURVEY") {
        use std::io::Write;
        if let Ok(mut f) = std::fs::OpenOptions::new().create(true).append(true).open(path) {
            for x in &out.failures {
                let _ = writeln!(f, "{}\t{}\t{}", x.facet, x.signature, x.detail.replace('\n', " "));
            }
        }
        out.failures.clear();
        out.label("survey_mode");
    }
    // non-trivial: some filter kept an item and some filter rejected one
    out.nontrivial = out.labels.iter().any(|l| l.ends_with(":m")) && out.labels.iter().any(|l| l.ends_with(":n"));
    out
}

// ------------------------------------------------------------------------------------------

impl Property for C08 {
    type Case = Case;
    fn id(&self) -> &'static str {
        "C08"
    }
    fn rule(&self) -> String {
        "case = Q (history of 13-26 / 22-44 ops over 1-3 resources with annotations on text, on annotations, on resources/datasets/keys/data, removals; SELECT over one of the 6 result types with 0-3 constraints per level drawn from the kinds the engine implements for that type in at least one position: ID, DATA set key [op value] [AS METADATA], VALUE, TEXT literal / AS NOCASE / AS REGEX, RESOURCE [AS METADATA] [OFFSET], DATASET [AS METADATA], ANNOTATION [AS METADATA [RECURSIVE]], [A OR B (OR C)], LIMIT b e in [-4,6]^2; 0-2 nested (OPTIONAL) sub-queries linked by variable constraints ANNOTATION/RESOURCE/DATASET/KEY/DATA/TEXT ?v and RELATION ?v OP; all referents are live items of the generated store) | M (history + single-level selection; DELETE <type> or ADD ANNOTATION WITH DATA..; TARGET ?v [OFFSET]) | H (two handle collections over 0..16 built sorted/unsorted + LimitIterator over 0..n with (b,e) in [-5,7]^2) | F (history + arguments; every public filter_* method of the six iterator traits - 108 methods, owned and _byref forms - applied to all items of the type in store order / reversed / a subset / a reversed subset, with arguments drawn from the store: single items, handle collections of size 0-3 with FilterMode Any/All, value operators derived from a datum, texts of annotations / text selections / a pool with exact, case-insensitive and regex matching, AnnotationDepth One/Max, a text relation operator, in half of the cases two in-memory sub-stores; the survivors are compared as a sequence with the source items that satisfy the predicate computed from the item-level API of each item, and .test() with non-emptiness). Non-trivial F: some filter kept an item and some filter rejected one. Non-trivial Q: >= 2 non-LIMIT constraints or a sub-query, and the root answer is non-empty, duplicate-free and smaller than the set of all live items of the type; non-trivial M: non-empty selection and the mutation agreed with the twin; H always. distinct = distinct case JSON.".into()
    }
    fn assumptions(&self) -> Vec<String> {
        vec![
            "the reference evaluator takes the meaning of each constraint from the rustdoc of Constraint, of the filter_* methods and of the item-level API; where those are silent the cell is don't-care (counted): annotations that reach a resource/key/data only through the annotations they target, TEXT on annotations with several text pieces, case-insensitive comparison of characters whose case mapping is not one-to-one, regular expressions that match only a part of the text, cross-type data operators (as C10), text selections without a live annotation, whitespace gaps > 10 for PRECEDES/SUCCEEDS".into(),
            "result order is never compared (only textual/chronological order of specific iterators is documented, not of query results); LIMIT is compared with the slice of the engine's own unlimited answer in the same constraint order".into(),
            "LIMIT semantics: negative numbers relative to the end, end 0 = until the end, end exclusive (rustdoc of LimitIter and the LIMIT parser); a LIMIT followed by further constraints is only required to return items of the unlimited answer".into(),
            "errors raised while a query runs are swallowed by QueryIter (printed to stderr, iteration ends); a (type, constraint, position) combination transcribed from the engine as not implemented is classified unimplemented|type|kind|pos when its answer is empty while another order answers; it is never used as an oracle".into(),
            "sub-query semantics = nested loops with the outer item bound as context variable (Query::bind_*var); an OPTIONAL sub-query without results yields one row without that level; if an OPTIONAL sub-query has results that are all eliminated by its own non-optional sub-query the expectation is don't-care".into(),
            "DELETE of keys/data: equal to direct removal with strict = true or with strict = false (not documented which); DELETE/ADD are only judged when the SELECT part is implemented; ADD with an id is only generated for selections of at most one item".into(),
            "Handles built with Handles::new are declared unsorted (always legal); sorted collections come from Handles::from_iter; intersection order is not compared (documentation contradictory), union order only for unsorted receivers".into(),
            "forms facet, handle collections: `ID x` / `[ID a OR ID b]` as first constraint of an ANNOTATION (RESOURCE) query is also built as Constraint::Annotations(handles, Normal, AnnotationDepth::Zero) (Constraint::Resources(handles, Normal)), `ANNOTATION [AS METADATA] x` / a disjunction of those as first constraint of an ANNOTATION, DATA or KEY query as Constraint::Annotations(handles, qualifier, AnnotationDepth::One); compared as multisets (handles deduplicated)".into(),
            "filter facet: the meaning of a filter method is its rustdoc, or where it has none the relation its name and parameter name between the item and the argument in the item-level API (filter_key(k): the item has / reaches through its annotations a datum with key k; KeyIterator::filter_one(data): the key of that datum; DataSetIterator::filter_one(data): the set of that datum; *_on_text / *_in_metadata: through annotations() / annotations_as_metadata() of the resource; the *_on_text methods whose rustdoc says 'as metadata' are read by their name). Undecided (counted, taken out of both sides): an empty argument collection; FilterMode::All on filters that go through the annotations of an item when no single annotation has all members but the annotations together do; case-insensitive comparison when lower-casing and upper-casing disagree; a regular expression that matches only a part of the text (or the empty string, for an annotation without text); an annotation with several text pieces one of which is empty (where delimiters go); cross-type value operators (C10's reference); an item whose item-level API panics. filter_all(collection): empty unless every member is in the iterator, else some items of the iterator including all members. filter_text_byref(.., case_sensitive = false, ..) is given a lower-cased argument as its rustdoc demands. AnnotationDepth::Zero is not passed to the *_in_targets filters; filter_substore(Some(..)) only with in-memory sub-stores (add_new_substore + associate_substore)".into(),
            "histories whose replay hits a panic / error / handle mismatch (other properties' findings) are skipped".into(),
        ]
    }
    fn cases(&self, tier: Tier) -> u64 {
        tier.pick(460_000, 9_200_000)
    }
    fn strategy(&self, tier: Tier) -> BoxedStrategy<Case> {
        let (max_ops, text_max, depth) = (tier.pick(26, 44), tier.pick(24, 40), 2);
        let q = (hist_strategy(max_ops, text_max), qs_strategy(depth), proptest::bool::weighted(0.12)).prop_map(|(hist, q, probe)| Case::Q(QCase { hist, q, probe }));
        let mkind = prop_oneof![
            3 => Just(MKind::Delete),
            2 => (
                proptest::bool::weighted(0.3),
                proptest::option::weighted(0.8, any::<u16>()),
                0u8..6,
                leaf_val_strategy(false),
                proptest::option::weighted(0.3, (0u8..3, 0u8..3))
            )
                .prop_map(|(with_id, set, key, val, offset)| MKind::Add { with_id, set, key, val, offset }),
        ];
        let m = (
            hist_strategy(max_ops, text_max),
            prop_oneof![4 => Just(T_ANN), 2 => Just(T_DATA), 2 => Just(T_KEY), 3 => Just(T_TEXT), 2 => Just(T_RES), 2 => Just(T_SET)].prop_flat_map(qs_single),
            mkind,
        )
            .prop_map(|(hist, sel, kind)| Case::M(MCase { hist, sel, kind }));
        let small = || proptest::collection::vec(0u8..16, 0..8);
        let h = (small(), any::<bool>(), small(), any::<bool>(), 0u8..12, proptest::collection::vec((-5i8..=7, -5i8..=7), 1..6), any::<bool>(), any::<bool>())
            .prop_map(|(mut a, a_from_iter, mut b, b_from_iter, n, limits, sa, sb)| {
                if sa {
                    a.sort();
                }
                if sb {
                    b.sort();
                }
                Case::H(HCase { a, a_from_iter, b, b_from_iter, n, limits })
            });
        let f = (hist_strategy(max_ops, text_max), fargs_strategy()).prop_map(|(hist, args)| Case::F(FCase { hist, args }));
        // the F share comes on top of the 400 000 / 8 000 000 cases of the other kinds (see cases())
        prop_oneof![60 => q, 15 => m, 25 => h, 15 => f].boxed()
    }
    fn run(&self, case: &Case) -> Outcome {
        silence_stderr();
        match case {
            Case::Q(c) => run_q(c),
            Case::M(c) => run_m(c),
            Case::H(c) => run_h(c),
            Case::F(c) => run_f(c),
        }
    }
    fn health(&self, labels: &BTreeMap<String, u64>, evals: u64) -> Vec<String> {
        let mut v = vec![];
        if evals < 5_000 {
            return v;
        }
        let get = |k: &str| labels.get(k).copied().unwrap_or(0);
        let q = get("case:query");
        if q > 0 && get("nontrivial") * 100 < q * 30 {
            v.push(format!("only {} of {} query cases are non-trivial", get("nontrivial"), q));
        }
        if get("survey_mode") > 0 {
            v.push("C08_SURVEY is set: failures of filter cases were diverted to that file, this run decides nothing".into());
        }
        // every public filter method must have been seen keeping an item and rejecting an item
        let f = get("case:filter");
        if f >= 2_000 {
            for (tr, methods) in filt::METHODS {
                for m in methods.iter() {
                    for kind in ["m", "n"] {
                        let k = format!("f:{}.{}:{}", tr, m, kind);
                        if get(&k) * 200 < f {
                            v.push(format!("label {} seen in only {} of {} filter cases", k, get(&k), f));
                        }
                    }
                }
            }
        }
        for k in [
            "type:ANNOTATION", "type:DATA", "type:KEY", "type:TEXT", "type:RESOURCE", "type:DATASET", "kind:ID", "kind:DATAKEY", "kind:KEYVALUE", "kind:VALUE",
            "kind:TEXT", "kind:TEXT_NOCASE", "kind:TEXT_REGEX", "kind:RESOURCE", "kind:RESOURCE_META", "kind:RESOURCE_OFFSET", "kind:DATASET", "kind:DATASET_META",
            "kind:ANNOTATION", "kind:ANNOTATION_META", "kind:ANNOTATION_META_REC", "kind:UNION", "kind:LIMIT", "kind:RELATION", "kind:VAR_ANNOTATION", "kind:VAR_TEXT",
            "kind:VAR_DATA", "kind:VAR_KEY", "kind:VAR_DATASET", "kind:VAR_RESOURCE", "levels:2", "levels:3", "optional", "limit_negative", "union_checked", "chain",
            "sub_checked", "sub_nonempty", "sub_optional_unmatched", "delete", "add", "m_nonempty_selection", "collection_form_nonempty",
        ] {
            if get(k) * 400 < evals {
                v.push(format!("label {} seen in only {} of {} cases", k, get(k), evals));
            }
        }
        v
    }
}
