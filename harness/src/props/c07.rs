//! C07 Text search and partition operations agree with plain string operations.
//!
//! One case = (1-3 resource texts, optional sub-selection of resource 0, known selections, one operation).
//! Oracles are plain `str` / `Vec<char>` / `regex` operations on the *slice* of the searched range; byte
//! positions are converted to codepoint positions by counting. See DESIGN.md §5 C07.

use crate::engine::*;
use proptest::prelude::*;
use regex::{Regex, RegexSet};
use serde::{Deserialize, Serialize};
use stam::*;
use std::collections::BTreeMap;

#[path = "c07_gen.rs"]
mod gen;
#[path = "c07_oracle.rs"]
mod oracle;

pub struct C07;

#[derive(Clone, Debug, Serialize, Deserialize, PartialEq)]
pub enum Op {
    /// exact search
    Find { needle: String },
    /// case-insensitive search
    FindNoCase { needle: String },
    /// sequence search; skip: 0 = non-alphabetic, 1 = whitespace, 2 = anything, 3 = nothing
    Sequence { fragments: Vec<String>, skip: u8, case_sensitive: bool },
    /// regular expressions (1-4), optionally with a precompiled RegexSet of the same expressions
    Regex { exprs: Vec<String>, precompiled: bool, allow_overlap: bool },
    Split { delimiter: String },
    Trim { chars: Vec<char>, with_fn: bool },
    Segmentation,
}

#[derive(Clone, Debug, Serialize, Deserialize)]
pub struct Case {
    /// texts of resources r0, r1, ...; everything except the store-wide searches works on r0
    pub texts: Vec<String>,
    /// sub-selection of r0 to search in (codepoints, begin <= end <= len); None = whole resource
    pub sub: Option<(usize, usize)>,
    /// annotate the sub-selection first, so that it is a known (bound) selection
    pub bound: bool,
    /// known selections on r0 (annotated before the operation)
    pub known: Vec<(usize, usize)>,
    pub op: Op,
    /// milestone interval of the store's configuration (None = default configuration)
    #[serde(default)]
    pub milestone: Option<usize>,
}

impl Op {
    pub fn name(&self) -> &'static str {
        match self {
            Op::Find { .. } => "find",
            Op::FindNoCase { .. } => "nocase",
            Op::Sequence { .. } => "seq",
            Op::Regex { .. } => "regex",
            Op::Split { .. } => "split",
            Op::Trim { .. } => "trim",
            Op::Segmentation => "seg",
        }
    }
}

/// one observed selection
#[derive(Clone, Debug, PartialEq, Eq)]
pub struct Sel {
    pub b: usize,
    pub e: usize,
    pub text: String,
    pub res: String,
}

fn obs(r: &ResultTextSelection) -> Sel {
    Sel {
        b: r.begin(),
        e: r.end(),
        text: r.text().to_string(),
        res: r.resource().id().unwrap_or("?").to_string(),
    }
}

/// one observed regex match
#[derive(Clone, Debug, PartialEq, Eq)]
pub struct RMatch {
    pub expr: usize,
    pub sels: Vec<Sel>,
    pub groups: Vec<usize>,
}

/// everything the oracle needs to know about where we search
pub struct Ctx<'a> {
    pub resid: String,
    pub text: &'a str,
    pub chars: Vec<char>,
    pub b: usize,
    pub e: usize,
    pub slice: &'a str,
    pub entry: &'static str,
    pub subclass: &'static str,
    pub mb: &'static str,
}

impl<'a> Ctx<'a> {
    pub fn new(resid: &str, text: &'a str, range: Option<(usize, usize)>, entry: &'static str) -> Ctx<'a> {
        let chars: Vec<char> = text.chars().collect();
        let (b, e) = range.unwrap_or((0, chars.len()));
        let bytepos = |p: usize| text.char_indices().nth(p).map(|x| x.0).unwrap_or(text.len());
        let slice = &text[bytepos(b)..bytepos(e)];
        let subclass = match range {
            None => "whole",
            Some((0, _)) => "sub@0",
            Some(_) => "sub>0",
        };
        let mb = if chars[..b].iter().any(|c| c.len_utf8() > 1) {
            "mbpre"
        } else if chars.iter().any(|c| c.len_utf8() > 1) {
            "mb"
        } else {
            "ascii"
        };
        Ctx { resid: resid.to_string(), text, chars, b, e, slice, entry, subclass, mb }
    }
    /// absolute codepoint position of a byte position inside the slice
    pub fn abs(&self, bytepos: usize) -> usize {
        self.b + self.slice[..bytepos].chars().count()
    }
    pub fn sig(&self, op: &str, class: &str, kind: &str) -> String {
        format!("{}|{}|{}|{}|{}|{}", op, class, kind, self.entry, self.subclass, self.mb)
    }
    pub fn substr(&self, b: usize, e: usize) -> String {
        self.chars[b..e].iter().collect()
    }
    pub fn describe(&self) -> String {
        format!("entry={} text={:?} range=({},{}) slice={:?}", self.entry, self.text, self.b, self.e, self.slice)
    }
}

/// far above anything a legitimate result can reach (<= 3 resources x 49 positions x 4 expressions); only there to turn a non-terminating iterator into a failure
const ITER_CAP: usize = 4000;

/// collect at most ITER_CAP items; Err(()) when the iterator did not end
fn collect_capped<I: Iterator>(it: I) -> (Vec<I::Item>, bool) {
    let mut v = vec![];
    for x in it {
        if v.len() >= ITER_CAP {
            return (v, true);
        }
        v.push(x);
    }
    (v, false)
}

/// run the case's operation through one `FindText` implementor
fn ops_on<'store, 'slf, T>(out: &mut Outcome, t: &'slf T, ctx: &Ctx, op: &Op)
where
    'store: 'slf,
    T: FindText<'store, 'slf>,
{
    match op {
        Op::Find { needle } => {
            match catch(|| {
                let (v, runaway) = collect_capped(t.find_text(needle.as_str()));
                (v.iter().map(obs).collect::<Vec<_>>(), runaway)
            }) {
                Ok((got, runaway)) => oracle::check_find(out, ctx, needle, &got, runaway),
                Err(p) => out.fail("panic", format!("{}|{}", ctx.sig("find", "-", "panic"), p.signature()), format!("find_text({:?}) panicked at {}:{}: {} [{}]", needle, p.file, p.line, p.msg, ctx.describe())),
            }
        }
        Op::FindNoCase { needle } => {
            match catch(|| {
                let (v, runaway) = collect_capped(t.find_text_nocase(needle.as_str()));
                (v.iter().map(obs).collect::<Vec<_>>(), runaway)
            }) {
                Ok((got, runaway)) => oracle::check_nocase(out, ctx, needle, &got, runaway),
                Err(p) => out.fail("panic", format!("{}|{}", ctx.sig("nocase", oracle::nocase_class(ctx, needle), "panic"), p.signature()), format!("find_text_nocase({:?}) panicked at {}:{}: {} [{}]", needle, p.file, p.line, p.msg, ctx.describe())),
            }
        }
        Op::Sequence { fragments, skip, case_sensitive } => {
            let frags: Vec<&str> = fragments.iter().map(|s| s.as_str()).collect();
            let skip = *skip;
            match catch(|| {
                t.find_text_sequence(&frags, |c| oracle::skip_char(skip, c), *case_sensitive)
                    .map(|v| v.iter().map(obs).collect::<Vec<_>>())
            }) {
                Ok(got) => oracle::check_sequence(out, ctx, fragments, skip, *case_sensitive, got),
                Err(p) => out.fail("panic", format!("{}|{}", ctx.sig("seq", "-", "panic"), p.signature()), format!("find_text_sequence({:?}, skip={}, cs={}) panicked at {}:{}: {} [{}]", fragments, skip, case_sensitive, p.file, p.line, p.msg, ctx.describe())),
            }
        }
        Op::Regex { exprs, precompiled, allow_overlap } => {
            let Some((res, set)) = compile(exprs, *precompiled) else {
                out.skip("regex does not compile");
                return;
            };
            match catch(|| match t.find_text_regex(&res, set.as_ref(), *allow_overlap) {
                Ok(it) => {
                    let (v, runaway) = collect_capped(it);
                    Ok((v.iter().map(obs_match).collect::<Vec<_>>(), runaway))
                }
                Err(e) => Err(format!("{}", e)),
            }) {
                Ok(Ok((got, runaway))) => oracle::check_regex(out, ctx, &res, *allow_overlap, &got, runaway),
                Ok(Err(e)) => out.fail("regex.offsets", ctx.sig("regex", &oracle::regex_class(&res, *allow_overlap), "error"), format!("find_text_regex({:?}) returned Err: {} [{}]", exprs, e, ctx.describe())),
                Err(p) => out.fail("panic", format!("{}|{}", ctx.sig("regex", &oracle::regex_class(&res, *allow_overlap), "panic"), p.signature()), format!("find_text_regex({:?}, precompiled={}, allow_overlap={}) panicked at {}:{}: {} [{}]", exprs, precompiled, allow_overlap, p.file, p.line, p.msg, ctx.describe())),
            }
        }
        Op::Split { delimiter } => {
            match catch(|| {
                let (v, runaway) = collect_capped(t.split_text(delimiter.as_str()));
                (v.iter().map(obs).collect::<Vec<_>>(), runaway)
            }) {
                Ok((got, runaway)) => oracle::check_split(out, ctx, delimiter, &got, runaway),
                Err(p) => out.fail("panic", format!("{}|{}", ctx.sig("split", "-", "panic"), p.signature()), format!("split_text({:?}) panicked at {}:{}: {} [{}]", delimiter, p.file, p.line, p.msg, ctx.describe())),
            }
        }
        Op::Trim { chars, with_fn } => {
            match catch(|| {
                let r = if *with_fn {
                    t.trim_text_with(|c| chars.contains(&c))
                } else {
                    t.trim_text(chars)
                };
                r.map(|s| obs(&s)).map_err(|e| format!("{}", e))
            }) {
                Ok(got) => oracle::check_trim(out, ctx, chars, got),
                Err(p) => out.fail("panic", format!("{}|{}", ctx.sig("trim", "-", "panic"), p.signature()), format!("trim_text({:?}) panicked at {}:{}: {} [{}]", chars, p.file, p.line, p.msg, ctx.describe())),
            }
        }
        Op::Segmentation => {}
    }
}

fn obs_match(m: &FindRegexMatch) -> RMatch {
    RMatch {
        expr: m.expression_index(),
        sels: m.textselections().iter().map(obs).collect(),
        groups: m.capturegroups().to_vec(),
    }
}

fn compile(exprs: &[String], precompiled: bool) -> Option<(Vec<Regex>, Option<RegexSet>)> {
    let mut res = vec![];
    for e in exprs {
        res.push(Regex::new(e).ok()?);
    }
    if res.is_empty() {
        return None;
    }
    let set = if precompiled { Some(RegexSet::new(exprs.iter()).ok()?) } else { None };
    Some((res, set))
}

impl Property for C07 {
    type Case = Case;
    fn id(&self) -> &'static str {
        "C07"
    }
    fn rule(&self) -> String {
        "case = (1-3 resource texts of 0-28 codepoints over a per-case subset of an alphabet of 1-4 byte characters incl. length-changing case folds, optional sub-selection of r0 (bound or unbound), 0-6 known selections, one operation: find_text / find_text_nocase / find_text_sequence / find_text_regex (1-4 expressions from a small grammar, 0-2 capture groups, allow_overlap, precompiled set) / split_text / trim_text(_with) / segmentation). The operation is run through every applicable entry point (ResultItem<TextResource>, ResultTextSelection bound/unbound, ResultItem<TextSelection>, AnnotationStore-wide, segmentation / segmentation_in_range / ResultTextSelection::segmentation) and compared with str::match_indices / split / trim_matches / regex find_iter+captures_iter / a per-character lower-case reference scan on the slice of the searched range, byte positions converted to codepoints by counting. Non-trivial = non-ASCII text and (sub-selection with begin>0 or >=2 matches/pieces/segments); distinct = distinct case JSON.".into()
    }
    fn assumptions(&self) -> Vec<String> {
        vec![
            "empty needles, delimiters, fragments and empty expression lists are not generated (behaviour undocumented; find_text(\"\") does not terminate)".into(),
            "case-insensitive = equality of per-character to_lowercase expansions; the Greek capital sigma (context-dependent lower-casing) is not in the alphabet; a match must cover whole characters".into(),
            "find_text_sequence is three-valued: None is wrong only when the greedy first-occurrence sequence exists with every gap (incl. the leading one) skippable; Some(v) must be a valid ordered sequence with skippable gaps between matches; which of several valid sequences is returned is don't-care".into(),
            "regular expressions: with several expressions the global order may follow whole-match begin or first-capture begin; allow_overlap=false is checked as (no two results of different expressions overlap) and (every dropped match overlaps a returned match of another expression); zero-width matches are exempt from the overlap facets; matches in which no capture group participates are don't-care; capturegroups() is only checked for expressions with capture groups; regexes are applied to the slice (no look-around across the range boundaries is generated: no anchors or \\b)".into(),
            "trim_text on text that is trimmed away entirely may return Err or any empty selection inside the range".into(),
            "segmentation of an empty range is don't-care (must not panic); segmentation ranges are generated with begin<=end<=textlen".into(),
            "resource order of the store-wide searches is don't-care; per resource the results must be the per-resource results".into(),
        ]
    }
    fn cases(&self, tier: Tier) -> u64 {
        tier.pick(800_000, 10_000_000)
    }
    fn strategy(&self, tier: Tier) -> BoxedStrategy<Case> {
        gen::case_strategy(tier)
    }

    fn run(&self, case: &Case) -> Outcome {
        let mut out = Outcome::new();
        // ---- validate the case (replay files may be hand-written)
        if case.texts.is_empty() || case.texts.len() > 4 {
            out.skip("invalid case: texts");
            return out;
        }
        let chars0: Vec<char> = case.texts[0].chars().collect();
        let len0 = chars0.len();
        if let Some((b, e)) = case.sub {
            if b > e || e > len0 {
                out.skip("invalid case: sub");
                return out;
            }
        }
        if case.known.iter().any(|(b, e)| b > e || *e > len0) {
            out.skip("invalid case: known");
            return out;
        }
        let empty_param = match &case.op {
            Op::Find { needle } | Op::FindNoCase { needle } => needle.is_empty(),
            Op::Sequence { fragments, .. } => fragments.is_empty() || fragments.iter().any(|f| f.is_empty()),
            Op::Regex { exprs, .. } => exprs.is_empty(),
            Op::Split { delimiter } => delimiter.is_empty(),
            _ => false,
        };
        if empty_param {
            out.skip("invalid case: empty needle/delimiter/expression list (undocumented)");
            return out;
        }
        // ---- build the store
        let mut store = match case.milestone {
            None => AnnotationStore::default(),
            Some(m) => {
                out.label("milestone.nondefault");
                AnnotationStore::new(Config::default().with_milestone_interval(m))
            }
        };
        for (i, t) in case.texts.iter().enumerate() {
            if store
                .add_resource(TextResourceBuilder::new().with_id(format!("r{}", i)).with_text(t.as_str()))
                .is_err()
            {
                out.skip("add_resource failed");
                return out;
            }
        }
        let mut known: Vec<(usize, usize)> = vec![];
        let mut annotate = |store: &mut AnnotationStore, b: usize, e: usize| -> bool {
            store
                .annotate(
                    AnnotationBuilder::new()
                        .with_target(SelectorBuilder::textselector("r0", Offset::simple(b, e)))
                        .with_data("s", "k", "v"),
                )
                .is_ok()
        };
        for (b, e) in &case.known {
            if !annotate(&mut store, *b, *e) {
                out.skip("annotate of known selection failed");
                return out;
            }
            known.push((*b, *e));
        }
        if let (Some((b, e)), true) = (case.sub, case.bound) {
            if !annotate(&mut store, b, e) {
                out.skip("annotate of sub-selection failed");
                return out;
            }
            known.push((b, e));
        }
        let store = &store;
        let Some(res) = store.resource("r0") else {
            out.skip("resource r0 not found");
            return out;
        };
        let text0: &str = case.texts[0].as_str();

        // ---- labels
        let opname = case.op.name();
        out.label(&format!("op.{}", opname));
        let nonascii = !text0.is_ascii();
        if nonascii {
            out.label("nonascii");
        }
        match case.sub {
            None => out.label("sub.none"),
            Some((0, _)) => out.label("sub.begin=0"),
            Some((b, _)) => {
                out.label("sub.begin>0");
                if chars0[..b].iter().any(|c| c.len_utf8() > 1) {
                    out.label("sub.multibyte-before");
                }
            }
        }
        if case.sub.is_some() && case.bound {
            out.label("sub.bound");
        }
        if case.texts.len() > 1 {
            out.label("multi-resource");
        }

        // ---- the operation through every entry point
        if let Op::Segmentation = case.op {
            oracle::run_segmentation(&mut out, &res, text0, case.sub, &known);
        } else {
            match case.sub {
                None => {
                    let ctx = Ctx::new("r0", text0, None, "res");
                    ops_on(&mut out, &res, &ctx, &case.op);
                    // the whole text as a selection
                    match catch(|| res.textselection(&Offset::whole())) {
                        Ok(Ok(sel)) => {
                            let ctx = Ctx::new("r0", text0, None, "sel.whole");
                            ops_on(&mut out, &sel, &ctx, &case.op);
                        }
                        _ => out.fail("setup", "textselection-whole", "textselection(Offset::whole()) failed"),
                    }
                }
                Some((b, e)) => match catch(|| res.textselection(&Offset::simple(b, e))) {
                    Ok(Ok(sel)) => {
                        let entry = match &sel {
                            ResultTextSelection::Bound(_) => "sel.bound",
                            ResultTextSelection::Unbound(..) => "sel.unbound",
                        };
                        if case.bound && entry != "sel.bound" {
                            out.fail("setup", "bound-selection-not-found", format!("annotated selection ({},{}) is not returned as bound by textselection()", b, e));
                        }
                        let ctx = Ctx::new("r0", text0, Some((b, e)), entry);
                        ops_on(&mut out, &sel, &ctx, &case.op);
                        if let Some(item) = sel.as_resultitem() {
                            let item = item.clone();
                            let ctx = Ctx::new("r0", text0, Some((b, e)), "item");
                            ops_on(&mut out, &item, &ctx, &case.op);
                            out.label("entry.item");
                        }
                    }
                    _ => out.fail("setup", "textselection-sub", format!("textselection(({},{})) failed on text of {} codepoints", b, e, len0)),
                },
            }
            // store-wide variants
            if case.texts.len() > 1 || case.sub.is_none() {
                oracle::run_storewide(&mut out, store, &case.texts, &case.op);
            }
        }
        oracle::finish_labels(&mut out, nonascii, case);
        out
    }

    fn health(&self, labels: &BTreeMap<String, u64>, evals: u64) -> Vec<String> {
        let mut v = vec![];
        if evals < 2000 {
            return v;
        }
        let frac = |l: &str| *labels.get(l).unwrap_or(&0) as f64 / evals as f64;
        for (l, min) in [
            ("nonascii", 0.50),
            ("sub.begin>0", 0.25),
            ("sub.multibyte-before", 0.15),
            ("results>=2", 0.25),
            ("op.find", 0.08),
            ("op.nocase", 0.08),
            ("op.seq", 0.05),
            ("op.regex", 0.12),
            ("op.split", 0.08),
            ("op.trim", 0.05),
            ("op.seg", 0.08),
            ("regex.capture-groups", 0.04),
            ("regex.multi-expr", 0.04),
            ("nocase.lenchange", 0.02),
            ("seg.known>=2", 0.04),
        ] {
            if frac(l) < min {
                v.push(format!("label {} only {:.1}% of cases (< {:.0}%)", l, frac(l) * 100.0, min * 100.0));
            }
        }
        v
    }
}
