pub mod c01;
pub mod c13;
