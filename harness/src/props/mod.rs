pub mod c13;
