//! C05 STAM JSON round trip preserves the whole model.

use crate::content::*;
use crate::engine::*;
use crate::hist::*;
use crate::model::Val;
use crate::observe::*;
use proptest::prelude::*;
use serde::{Deserialize, Serialize};
use stam::*;
use std::path::PathBuf;
use std::sync::atomic::{AtomicU64, Ordering};

pub struct C05;

#[derive(Clone, Debug, Serialize, Deserialize, PartialEq)]
pub enum Mode {
    /// everything in one document, via to_json_string / from_str
    Inline,
    /// one document, via to_file / from_file
    InlineFile,
    /// resources (as .txt or .json) and datasets kept in stand-off files via @include
    Standoff { json_resources: bool },
    /// the first `cut` annotations (and all resources/datasets) live in an included sub-store
    Substore { cut: u16, standoff: bool },
}

#[derive(Clone, Debug, Serialize, Deserialize)]
pub struct Case {
    pub hist: History,
    pub compact: bool,
    pub mode: Mode,
    /// stand-off mode: changes made to the store after it was loaded from its stand-off files and saved once; the
    /// next save must bring every file up to date
    #[serde(default)]
    pub grow: Vec<Grow>,
}

#[derive(Clone, Debug, Serialize, Deserialize, PartialEq)]
pub enum Grow {
    /// declare a new key in the k-th dataset (no data)
    BareKey { set: u16 },
    /// insert a new data item (new key) into the k-th dataset
    InsertData { set: u16 },
    /// a new annotation on the whole text of the k-th resource with new data in the k-th dataset
    Annotate { res: u16, set: u16 },
    RemoveAnnotation { pick: u16 },
    RemoveData { set: u16, pick: u16 },
}

/// apply the changes through the public API, addressing items by their position among the live items (the same in a
/// store loaded from stand-off files and in one loaded from the inline document); Err = a call failed
fn apply_grow(store: &mut AnnotationStore, ops: &[Grow]) -> Result<Vec<&'static str>, String> {
    let mut done = vec![];
    for (i, op) in ops.iter().enumerate() {
        match op {
            Grow::BareKey { set } => {
                let sets: Vec<AnnotationDataSetHandle> = store.datasets().map(|d| d.handle()).collect();
                if sets.is_empty() {
                    continue;
                }
                let h = sets[pick(*set, sets.len())];
                let name = format!("grown-key-{}", i);
                let ds: &mut AnnotationDataSet = store.get_mut(h).map_err(|e| format!("{}", e))?;
                ds.insert(DataKey::new(name)).map_err(|e| format!("insert(DataKey): {}", e))?;
                done.push("grow.bare_key");
            }
            Grow::InsertData { set } => {
                let sets: Vec<AnnotationDataSetHandle> = store.datasets().map(|d| d.handle()).collect();
                if sets.is_empty() {
                    continue;
                }
                let h = sets[pick(*set, sets.len())];
                store
                    .insert_data(AnnotationDataBuilder::new().with_dataset(BuildItem::Handle(h)).with_key(BuildItem::Id(format!("grown-k-{}", i))).with_value(DataValue::String(format!("grown value {}", i))))
                    .map_err(|e| format!("insert_data: {}", e))?;
                done.push("grow.insert_data");
            }
            Grow::Annotate { res, set } => {
                let ress: Vec<TextResourceHandle> = store.resources().map(|r| r.handle()).collect();
                let sets: Vec<AnnotationDataSetHandle> = store.datasets().map(|d| d.handle()).collect();
                if ress.is_empty() || sets.is_empty() {
                    continue;
                }
                let r = ress[pick(*res, ress.len())];
                let h = sets[pick(*set, sets.len())];
                store
                    .annotate(
                        AnnotationBuilder::new()
                            .with_id(format!("grown-annotation-{}", i))
                            .with_target(SelectorBuilder::textselector(BuildItem::Handle(r), Offset::whole()))
                            .with_data_builder(AnnotationDataBuilder::new().with_dataset(BuildItem::Handle(h)).with_key(BuildItem::Id(format!("grown-ak-{}", i))).with_value(DataValue::Int(i as isize))),
                    )
                    .map_err(|e| format!("annotate: {}", e))?;
                done.push("grow.annotate");
            }
            Grow::RemoveAnnotation { pick: p } => {
                let anns: Vec<AnnotationHandle> = store.annotations().map(|a| a.handle()).collect();
                if anns.is_empty() {
                    continue;
                }
                let a = anns[pick(*p, anns.len())];
                store.remove_annotation(a).map_err(|e| format!("remove_annotation: {}", e))?;
                done.push("grow.remove_annotation");
            }
            Grow::RemoveData { set, pick: p } => {
                let sets: Vec<AnnotationDataSetHandle> = store.datasets().map(|d| d.handle()).collect();
                if sets.is_empty() {
                    continue;
                }
                let h = sets[pick(*set, sets.len())];
                let data: Vec<AnnotationDataHandle> = store.dataset(h).map(|d| d.data().map(|x| x.handle()).collect()).unwrap_or_default();
                if data.is_empty() {
                    continue;
                }
                let d = data[pick(*p, data.len())];
                store.remove_data(h, d, false).map_err(|e| format!("remove_data: {}", e))?;
                done.push("grow.remove_data");
            }
        }
    }
    Ok(done)
}

static COUNTER: AtomicU64 = AtomicU64::new(0);

/// scratch base: $VERIF_TMP if set, else a tmpfs (/dev/shm) when it is writable (a run writes and removes many
/// small files, which a journalling file system turns into synchronous disk writes), else /tmp
pub fn scratch_base() -> String {
    static BASE: std::sync::OnceLock<String> = std::sync::OnceLock::new();
    BASE.get_or_init(|| {
        if let Ok(b) = std::env::var("VERIF_TMP") {
            return b;
        }
        let probe = format!("/dev/shm/stamverif-probe5-{}", std::process::id());
        if std::fs::create_dir_all(&probe).is_ok() {
            let _ = std::fs::remove_dir_all(&probe);
            "/dev/shm".to_string()
        } else {
            "/tmp".to_string()
        }
    })
    .clone()
}

pub struct TempDir(pub PathBuf);
impl TempDir {
    pub fn new(tag: &str) -> TempDir {
        let base = scratch_base();
        let n = COUNTER.fetch_add(1, Ordering::Relaxed);
        let p = PathBuf::from(base).join(format!("stamverif-{}-{}-{}", std::process::id(), tag, n));
        let _ = std::fs::create_dir_all(&p);
        TempDir(p)
    }
    pub fn path(&self, name: &str) -> String {
        self.0.join(name).to_string_lossy().to_string()
    }
}
impl Drop for TempDir {
    fn drop(&mut self) {
        let _ = std::fs::remove_dir_all(&self.0);
    }
}

fn value_text(v: &Val) -> String {
    format!("{:?}", v)
}

/// run the history; None if the machine diverged from the model (other properties' business)
pub fn final_store(h: &History, out: &mut Outcome) -> Option<Machine> {
    let mut m = Machine::new(h.hostile);
    for op in &h.ops {
        let s = m.apply(op);
        if s.skipped.is_some() {
            continue;
        }
        if s.panic.is_some() || s.result.is_err() || s.mismatch.is_some() {
            out.label("stopped_at_foreign_divergence");
            return None;
        }
        if op.is_removal() {
            out.label("has_gap");
        }
    }
    Some(m)
}

fn classify(obs: &Obs, out: &mut Outcome) {
    let mut nt = false;
    for a in &obs.anns {
        if a.id.is_none() {
            out.label("idless_annotation");
            nt = true;
        }
        for l in a.target.leaves() {
            match l {
                crate::model::MSel::Key(..) => {
                    out.label("key_selector");
                    nt = true;
                }
                crate::model::MSel::Data(..) => {
                    out.label("data_selector");
                    nt = true;
                }
                crate::model::MSel::Text { mode, .. } if *mode != (false, false) => {
                    out.label("endaligned_offset");
                    nt = true;
                }
                crate::model::MSel::Ann { text: Some((_, _, _, mode)), .. } => {
                    out.label("relative_offset");
                    if *mode != (false, false) {
                        out.label("endaligned_offset");
                    }
                    nt = true;
                }
                _ => {}
            }
        }
        if a.ranged {
            out.label("range_compressed");
        }
        if a.target.is_complex() {
            out.label("complex_selector");
        }
    }
    for s in &obs.sets {
        if s.data.iter().any(|d| d.id.is_none()) {
            out.label("idless_data");
            nt = true;
        }
        if s.data.iter().any(|d| matches!(d.value, Val::List(_))) {
            out.label("list_value");
        }
        if s.data.iter().any(|d| matches!(d.value, Val::Dt(_))) {
            out.label("datetime_value");
        }
    }
    if out.labels.iter().any(|l| l == "has_gap") {
        nt = true;
    }
    out.nontrivial = nt;
}

fn json_config(compact: bool) -> Config {
    Config::default().with_dataformat(DataFormat::Json { compact })
}

fn report(out: &mut Outcome, stage: &str, diffs: Vec<(String, String, String)>) {
    for (facet, sig, detail) in diffs {
        out.fail(&facet, format!("{}|{}", sig, stage), format!("[{}] {}", stage, detail));
    }
}

impl Property for C05 {
    type Case = Case;
    fn id(&self) -> &'static str {
        "C05"
    }
    fn rule(&self) -> String {
        "case = final store of a C01 history (so with gaps, id-less items, every selector kind, end-aligned and relative offsets, all value types; in one history of twelve the text of the first resource starts with U+FEFF, which is an ordinary codepoint of the text) x pretty/compact x {one document through to_json_string/from_str, one file through to_file/from_file, resources and datasets moved to @include stand-off files (.txt / .json), one level of included sub-store}. Oracle: the reload succeeds; the handle-free content snapshot (ordered live items, references as ordinals, offsets with alignment, typed values, texts) of the reloaded store equals the original's; the reloaded store is self-consistent (C01 consistency battery); writing the reloaded store again gives byte-identical output (for stand-off: every file); in stand-off mode the loaded and saved store is then changed through the API (new key, new data, new annotation, removals), saved and reloaded, and must equal a twin loaded from the inline document that received the same changes (the changed flags of the members decide which files are rewritten). Non-trivial = the store has a gap, an id-less item, a key/data selector or an end-aligned/relative offset; distinct = distinct case JSON.".into()
    }
    fn assumptions(&self) -> Vec<String> {
        vec![
            "Multi/Composite sub-selector order is not significant".into(),
            "stand-off and sub-store documents are produced by rewriting the inline JSON (moving members to @include files); no programmatic shortcut of the library is assumed".into(),
            "one history in five uses the hostile id/key/value alphabet (quotes, backslashes, control characters); file names derive from ordinals, not ids".into(),
        ]
    }
    fn cases(&self, tier: Tier) -> u64 {
        tier.pick(600_000, 8_000_000)
    }
    fn strategy(&self, tier: Tier) -> BoxedStrategy<Case> {
        let cfg = HistCfg {
            max_ops: tier.pick(16, 40),
            text_max: 16,
            removal_weight: 3,
            protect_weight: 1,
            complex_weight: 2,
            ..HistCfg::default()
        };
        let mode = prop_oneof![
            5 => Just(Mode::Inline),
            1 => Just(Mode::InlineFile),
            3 => any::<bool>().prop_map(|json_resources| Mode::Standoff { json_resources }),
            2 => (any::<u16>(), any::<bool>()).prop_map(|(cut, standoff)| Mode::Substore { cut, standoff }),
        ];
        let grow_op = prop_oneof![
            3 => any::<u16>().prop_map(|set| Grow::BareKey { set }),
            3 => any::<u16>().prop_map(|set| Grow::InsertData { set }),
            3 => (any::<u16>(), any::<u16>()).prop_map(|(res, set)| Grow::Annotate { res, set }),
            2 => any::<u16>().prop_map(|pick| Grow::RemoveAnnotation { pick }),
            2 => (any::<u16>(), any::<u16>()).prop_map(|(set, pick)| Grow::RemoveData { set, pick }),
        ];
        let grow = prop_oneof![1 => Just(vec![]), 3 => proptest::collection::vec(grow_op, 1..=2)];
        let hostile_cfg = HistCfg { hostile: true, ..cfg.clone() };
        // one history in twelve: the text of its first resource starts with U+FEFF (a byte order mark is an ordinary
        // codepoint of the text: readers of stand-off text files must not treat it as an encoding signature)
        (prop_oneof![4 => history_strategy(cfg), 1 => history_strategy(hostile_cfg)], any::<bool>(), mode, grow, 0u8..12)
            .prop_map(|(mut hist, compact, mode, grow, bom)| {
                if bom == 0 {
                    for op in hist.ops.iter_mut() {
                        if let Op::AddResource { text, .. } = op {
                            text.insert(0, '\u{feff}');
                            break;
                        }
                    }
                }
                Case { hist, compact, mode, grow }
            })
            .boxed()
    }

    fn run(&self, case: &Case) -> Outcome {
        let mut out = Outcome::new();
        if case.hist.ops.iter().any(|op| matches!(op, Op::AddResource { text, .. } if text.starts_with('\u{feff}'))) {
            out.label("text_starts_with_bom");
        }
        let Some(m) = final_store(&case.hist, &mut out) else { return out };
        let model_content = content_of_model(&m.model);
        let store = m.store;
        let obs = match catch(|| observe(&store)) {
            Ok(o) => o,
            Err(_) => {
                out.label("stopped_at_foreign_divergence");
                return out;
            }
        };
        classify(&obs, &mut out);
        // the expectation is what the items were built with (reference model); the store's own view of itself must
        // agree with it except for alignment modes, which internal range compression may already have lost
        let observed = content(&obs);
        {
            let d = compare(&model_content, &observed, true, &value_text);
            if d.iter().any(|(facet, _, _)| facet != "offset.mode") {
                out.label("stopped_at_foreign_divergence");
                return out;
            }
        }
        let mut original = model_content;
        for (a, o) in original.anns.iter_mut().zip(observed.anns.iter()) {
            a.ranged = o.ranged;
        }
        let cfg = json_config(case.compact);
        out.label(if case.compact { "compact" } else { "pretty" });
        // ---- serialise
        let s1 = match catch(|| store.to_json_string(&cfg)) {
            Ok(Ok(s)) => s,
            Ok(Err(e)) => {
                out.fail("write", "err", format!("to_json_string failed: {}", e));
                return out;
            }
            Err(p) => {
                out.fail("write", p.signature(), format!("to_json_string panicked at {}:{}: {}", p.file, p.line, p.msg));
                return out;
            }
        };
        match &case.mode {
            Mode::Inline => {
                out.label("inline");
                let Some(store2) = load_str(&s1, case.compact, &mut out, "reload") else { return out };
                if !compare_store(&original, &store2, &mut out, "reload") {
                    return out;
                }
                match catch(|| store2.to_json_string(&cfg)) {
                    Ok(Ok(s2)) => {
                        out.checks += 1;
                        if s2 != s1 {
                            out.fail("fixpoint", first_diff_class(&s1, &s2), format!("second output differs from the first: {}", first_diff(&s1, &s2)));
                        }
                    }
                    Ok(Err(e)) => out.fail("fixpoint", "write-err", format!("writing the reloaded store failed: {}", e)),
                    Err(p) => out.fail("fixpoint", p.signature(), format!("writing the reloaded store panicked: {}", p.msg)),
                }
            }
            Mode::InlineFile => {
                out.label("inline_file");
                let dir = TempDir::new("c05");
                let f = dir.path("main.store.stam.json");
                let mut store = store;
                store.set_config(cfg.clone());
                match catch(|| store.to_file(&f)) {
                    Ok(Ok(())) => {}
                    Ok(Err(e)) => {
                        out.fail("write", "to_file-err", format!("to_file failed: {}", e));
                        return out;
                    }
                    Err(p) => {
                        out.fail("write", p.signature(), format!("to_file panicked: {}", p.msg));
                        return out;
                    }
                }
                let Some(store2) = load_file(&f, case.compact, &mut out, "reload-file") else { return out };
                if !compare_store(&original, &store2, &mut out, "reload-file") {
                    return out;
                }
                let first = std::fs::read_to_string(&f).unwrap_or_default();
                let f2 = dir.path("second.store.stam.json");
                let mut store2 = store2;
                match catch(|| store2.to_file(&f2)) {
                    Ok(Ok(())) => {
                        let second = std::fs::read_to_string(&f2).unwrap_or_default();
                        out.checks += 1;
                        if first != second {
                            out.fail("fixpoint", first_diff_class(&first, &second), format!("second file differs from the first: {}", first_diff(&first, &second)));
                        }
                    }
                    Ok(Err(e)) => out.fail("fixpoint", "write-err", format!("writing the reloaded store failed: {}", e)),
                    Err(p) => out.fail("fixpoint", p.signature(), format!("writing the reloaded store panicked: {}", p.msg)),
                }
            }
            Mode::Standoff { json_resources } => {
                out.label("standoff");
                let dir = TempDir::new("c05");
                let Ok(mut doc) = serde_json::from_str::<serde_json::Value>(&s1) else {
                    out.fail("write", "not-json", "the store's JSON output is not valid JSON".to_string());
                    return out;
                };
                externalise(&mut doc, &dir, *json_resources);
                let main = dir.path("main.store.stam.json");
                std::fs::write(&main, ordered_doc(&doc)).expect("write main");
                let Some(store2) = load_file_include(&main, case.compact, &dir, &mut out, "reload-standoff") else { return out };
                if !compare_store(&original, &store2, &mut out, "reload-standoff") {
                    return out;
                }
                // save twice: everything must reach a fixpoint
                let snap = |dir: &TempDir| -> Vec<(String, String)> {
                    let mut v: Vec<(String, String)> = std::fs::read_dir(&dir.0)
                        .map(|rd| {
                            rd.filter_map(|e| e.ok())
                                .map(|e| (e.file_name().to_string_lossy().to_string(), std::fs::read_to_string(e.path()).unwrap_or_default()))
                                .collect()
                        })
                        .unwrap_or_default();
                    v.sort();
                    v
                };
                match catch(|| store2.save()) {
                    Ok(Ok(())) => {}
                    Ok(Err(e)) => {
                        out.fail("fixpoint", "save-err|standoff", format!("save() of the reloaded stand-off store failed: {}", e));
                        return out;
                    }
                    Err(p) => {
                        out.fail("fixpoint", format!("{}|standoff", p.signature()), format!("save() panicked: {}", p.msg));
                        return out;
                    }
                }
                let files1 = snap(&dir);
                let Some(store3) = load_file_include(&main, case.compact, &dir, &mut out, "reload-standoff-2") else { return out };
                if !compare_store(&original, &store3, &mut out, "reload-standoff-2") {
                    return out;
                }
                match catch(|| {
                    // force rewriting by marking nothing: a plain save must not change any file
                    store3.save()
                }) {
                    Ok(Ok(())) => {
                        let files2 = snap(&dir);
                        out.checks += 1;
                        if files1 != files2 {
                            let which: Vec<&String> = files1.iter().zip(files2.iter()).filter(|(a, b)| a != b).map(|(a, _)| &a.0).collect();
                            out.fail("fixpoint", "files-differ|standoff", format!("a second save changed files {:?}", which));
                        }
                    }
                    Ok(Err(e)) => out.fail("fixpoint", "save-err|standoff", format!("second save failed: {}", e)),
                    Err(p) => out.fail("fixpoint", format!("{}|standoff", p.signature()), format!("second save panicked: {}", p.msg)),
                }
                // ---- the loaded (and saved) store is changed through the API and saved again: every stand-off file must
                // follow. Oracle: a twin loaded from the inline document that received the same changes.
                if !case.grow.is_empty() && out.failures.is_empty() {
                    let mut store3 = store3;
                    let Some(mut twin) = load_str(&s1, case.compact, &mut out, "grow-twin") else { return out };
                    let r_twin = catch(|| apply_grow(&mut twin, &case.grow));
                    let r_main = catch(|| apply_grow(&mut store3, &case.grow));
                    match (r_twin, r_main) {
                        (Ok(Ok(done)), Ok(Ok(done2))) if done == done2 && !done.is_empty() => {
                            for l in &done {
                                out.label(l);
                            }
                            let expected = match catch(|| observe(&twin)) {
                                Ok(o) => content(&o),
                                Err(_) => {
                                    out.label("stopped_at_foreign_divergence");
                                    return out;
                                }
                            };
                            match catch(|| store3.save()) {
                                Ok(Ok(())) => {}
                                Ok(Err(e)) => {
                                    out.fail("grow", "save-err|standoff", format!("save() after {:?} failed: {}", case.grow, e));
                                    return out;
                                }
                                Err(p) => {
                                    out.fail("grow", format!("{}|standoff", p.signature()), format!("save() after {:?} panicked: {}", case.grow, p.msg));
                                    return out;
                                }
                            }
                            drop(store3);
                            let Some(store4) = load_file_include(&main, case.compact, &dir, &mut out, "reload-after-grow") else { return out };
                            let obs4 = match catch(|| observe(&store4)) {
                                Ok(o) => o,
                                Err(p) => {
                                    out.fail("grow", format!("traverse|{}", p.signature()), format!("traversing the store reloaded after {:?} panicked: {}", case.grow, p.msg));
                                    return out;
                                }
                            };
                            out.checks += 1;
                            let diffs = compare(&expected, &content(&obs4), true, &value_text);
                            // reported under the facet of the difference (so that the listed finding about the alignment of
                            // range-compressed selectors, facet offset.mode signature ranged|*, is recognised here too)
                            for (facet, sig, detail) in diffs {
                                out.fail(&facet, format!("{}|grow:{}", sig, done.join("+")), format!("[grow] after {:?} on the store loaded from stand-off files, save() and reload: {}", case.grow, detail));
                            }
                        }
                        (Ok(Ok(_)), Ok(Ok(_))) => out.label("grow.nothing_applied"),
                        (Ok(Err(_)), Ok(Err(_))) => out.label("grow.rejected_by_both"),
                        (Err(_), Err(_)) => out.label("grow.panics_in_both"),
                        (a, b) => {
                            let f = |r: &Result<Result<Vec<&'static str>, String>, PanicInfo>| match r {
                                Ok(Ok(d)) => format!("Ok({:?})", d),
                                Ok(Err(e)) => format!("Err({})", e),
                                Err(p) => format!("panic({})", p.msg),
                            };
                            out.fail("grow", "outcome-differs|standoff", format!("the changes {:?} gave {} on the store loaded from the inline document but {} on the store loaded from stand-off files", case.grow, f(&a), f(&b)));
                        }
                    }
                }
            }
            Mode::Substore { cut, standoff } => {
                out.label("substore");
                let dir = TempDir::new("c05");
                let Ok(doc) = serde_json::from_str::<serde_json::Value>(&s1) else {
                    out.fail("write", "not-json", "the store's JSON output is not valid JSON".to_string());
                    return out;
                };
                let n = original.anns.len();
                let k = if n == 0 { 0 } else { pick(*cut, n + 1) };
                // an annotation that is referenced without a public id cannot cross the file boundary
                let crosses = original.anns.iter().enumerate().any(|(i, a)| {
                    i >= k && a.target.anns().iter().any(|t| *t < k && original.anns[*t].id.is_none())
                }) || obs.sets.iter().any(|s| s.id.is_none());
                if crosses {
                    out.skip("cross-boundary reference to an id-less annotation");
                    return out;
                }
                // id-less data / keys referenced from main annotations use temporary ids: resolvable as handles stay equal
                let mut expected_order: Option<(Vec<usize>, Vec<usize>)> = None;
                let mut sub = doc.clone();
                let mut main = serde_json::json!({"@type": "AnnotationStore", "@include": "sub.store.stam.json", "resources": [], "annotationsets": []});
                // resources and datasets that no sub-store annotation needs stay with the main store
                // (the sub-store must be loadable on its own: everything its annotations refer to lives in it)
                {
                    let mut need_res: std::collections::BTreeSet<usize> = Default::default();
                    let mut need_set: std::collections::BTreeSet<usize> = Default::default();
                    // closure over the first k annotations (they can only refer to earlier annotations)
                    for a in original.anns.iter().take(k) {
                        for l in a.target.leaves() {
                            match l {
                                crate::model::MSel::Text { res, .. } | crate::model::MSel::Res(res) => {
                                    need_res.insert(*res);
                                }
                                crate::model::MSel::Ann { text: Some((res, ..)), .. } => {
                                    need_res.insert(*res);
                                }
                                crate::model::MSel::Set(s) | crate::model::MSel::Key(s, _) | crate::model::MSel::Data(s, _) => {
                                    need_set.insert(*s);
                                }
                                _ => {}
                            }
                        }
                        for (s_, _) in &a.data {
                            need_set.insert(*s_);
                        }
                    }
                    let mut main_res = vec![];
                    let mut main_sets = vec![];
                    let mut sub_res_idx = vec![];
                    let mut main_res_idx = vec![];
                    let mut sub_set_idx = vec![];
                    let mut main_set_idx = vec![];
                    if let Some(arr) = sub.get_mut("resources").and_then(|r| r.as_array_mut()) {
                        let all = std::mem::take(arr);
                        for (i, r) in all.into_iter().enumerate() {
                            // every second unneeded member moves to the main store
                            if !need_res.contains(&i) && i % 2 == (*cut as usize) % 2 {
                                main_res.push(r);
                                main_res_idx.push(i);
                            } else {
                                arr.push(r);
                                sub_res_idx.push(i);
                            }
                        }
                    }
                    if let Some(arr) = sub.get_mut("annotationsets").and_then(|r| r.as_array_mut()) {
                        let all = std::mem::take(arr);
                        for (i, r) in all.into_iter().enumerate() {
                            if !need_set.contains(&i) && i % 2 == (*cut as usize) % 2 {
                                main_sets.push(r);
                                main_set_idx.push(i);
                            } else {
                                arr.push(r);
                                sub_set_idx.push(i);
                            }
                        }
                    }
                    if !main_res.is_empty() || !main_sets.is_empty() {
                        out.label("substore_main_owns_members");
                    }
                    main["resources"] = serde_json::Value::Array(main_res);
                    main["annotationsets"] = serde_json::Value::Array(main_sets);
                    // the included sub-store is read first: its members precede the main store's own
                    sub_res_idx.extend(main_res_idx);
                    sub_set_idx.extend(main_set_idx);
                    expected_order = Some((sub_res_idx, sub_set_idx));
                }
                let original = match &expected_order {
                    Some((r, s_)) => permute(&original, r, s_),
                    None => original,
                };
                if let (Some(arr), Some(obj)) = (doc.get("annotations").and_then(|a| a.as_array()), sub.as_object_mut()) {
                    let (first, rest) = arr.split_at(k.min(arr.len()));
                    obj.insert("annotations".into(), serde_json::Value::Array(first.to_vec()));
                    main["annotations"] = serde_json::Value::Array(rest.to_vec());
                }
                if let Some(id) = doc.get("@id") {
                    main["@id"] = id.clone();
                }
                if let Some(obj) = sub.as_object_mut() {
                    obj.insert("@id".into(), serde_json::Value::String("the-substore".into()));
                }
                if *standoff {
                    externalise(&mut sub, &dir, false);
                    out.label("substore_standoff");
                }
                std::fs::write(dir.path("sub.store.stam.json"), ordered_doc(&sub)).expect("write sub");
                let mainf = dir.path("main.store.stam.json");
                std::fs::write(&mainf, ordered_doc(&main)).expect("write main");
                if k < n && k > 0 {
                    out.label("substore_split");
                }
                let Some(store2) = load_file_include(&mainf, case.compact, &dir, &mut out, "reload-substore") else { return out };
                if !compare_store(&original, &store2, &mut out, "reload-substore") {
                    return out;
                }
                // membership: the sub-store lists exactly the first k annotations
                let membership = catch(|| {
                    let subs: Vec<_> = store2.substores().collect();
                    if subs.len() != 1 {
                        return Err(format!("{} sub-stores after loading one @include", subs.len()));
                    }
                    let in_sub: Vec<usize> = store2
                        .annotations()
                        .enumerate()
                        .filter(|(_, a)| a.substore().is_some())
                        .map(|(i, _)| i)
                        .collect();
                    let exp: Vec<usize> = (0..k).collect();
                    if in_sub != exp {
                        return Err(format!("annotations in the sub-store: {:?}, expected {:?}", in_sub, exp));
                    }
                    Ok(())
                });
                out.checks += 1;
                match membership {
                    Ok(Ok(())) => {}
                    Ok(Err(e)) => out.fail("substore.membership", "wrong-members", e),
                    Err(p) => out.fail("substore.membership", p.signature(), format!("inspecting sub-stores panicked: {}", p.msg)),
                }
                if !out.failures.is_empty() {
                    return out;
                }
                match catch(|| store2.save()) {
                    Ok(Ok(())) => {
                        let Some(store3) = load_file_include(&mainf, case.compact, &dir, &mut out, "reload-substore-2") else { return out };
                        compare_store(&original, &store3, &mut out, "reload-substore-2");
                    }
                    Ok(Err(e)) => out.fail("fixpoint", "save-err|substore", format!("save() of the reloaded store with sub-store failed: {}", e)),
                    Err(p) => out.fail("fixpoint", format!("{}|substore", p.signature()), format!("save() panicked: {}", p.msg)),
                }
            }
        }
        out
    }
}

/// serialise a store document with the member order the writer itself uses (the reader is a streaming
/// one: resources and datasets must precede the annotations that refer to them)
pub fn ordered_doc(doc: &serde_json::Value) -> String {
    const ORDER: [&str; 20] = [
        "@type", "@id", "@include", "resources", "annotationsets", "annotations", "text", "keys", "target", "set", "resource",
        "annotation", "annotationset", "key", "offset", "selectors", "begin", "end", "value", "data",
    ];
    fn rec(v: &serde_json::Value, out: &mut String) {
        match v {
            serde_json::Value::Object(m) => {
                out.push('{');
                let mut first = true;
                let mut keys: Vec<&String> = vec![];
                for k in ORDER {
                    if let Some((kk, _)) = m.get_key_value(k) {
                        keys.push(kk);
                    }
                }
                for k in m.keys() {
                    if !ORDER.contains(&k.as_str()) {
                        keys.push(k);
                    }
                }
                for k in keys {
                    if !first {
                        out.push(',');
                    }
                    first = false;
                    out.push_str(&serde_json::to_string(k).unwrap());
                    out.push(':');
                    rec(&m[k], out);
                }
                out.push('}');
            }
            serde_json::Value::Array(a) => {
                out.push('[');
                for (i, x) in a.iter().enumerate() {
                    if i > 0 {
                        out.push(',');
                    }
                    rec(x, out);
                }
                out.push(']');
            }
            other => out.push_str(&serde_json::to_string(other).unwrap()),
        }
    }
    let mut out = String::new();
    rec(doc, &mut out);
    out
}

/// move resources and datasets of a store document into @include files
fn externalise(doc: &mut serde_json::Value, dir: &TempDir, json_resources: bool) {
    if let Some(arr) = doc.get_mut("resources").and_then(|r| r.as_array_mut()) {
        for (i, r) in arr.iter_mut().enumerate() {
            let id = r.get("@id").cloned();
            let text = r.get("text").and_then(|t| t.as_str()).unwrap_or("").to_string();
            if json_resources {
                let fname = format!("r{}.resource.stam.json", i);
                let mut inner = r.clone();
                if let Some(o) = inner.as_object_mut() {
                    o.remove("@include");
                }
                std::fs::write(dir.path(&fname), ordered_doc(&inner)).expect("write resource");
                *r = serde_json::json!({"@type": "TextResource", "@include": fname});
            } else {
                let fname = format!("r{}.txt", i);
                std::fs::write(dir.path(&fname), &text).expect("write text");
                *r = serde_json::json!({"@type": "TextResource", "@include": fname});
            }
            if let Some(id) = id {
                r["@id"] = id;
            }
        }
    }
    if let Some(arr) = doc.get_mut("annotationsets").and_then(|r| r.as_array_mut()) {
        for (i, s) in arr.iter_mut().enumerate() {
            let id = s.get("@id").cloned();
            let fname = format!("s{}.dataset.stam.json", i);
            std::fs::write(dir.path(&fname), ordered_doc(s)).expect("write dataset");
            *s = serde_json::json!({"@type": "AnnotationDataSet", "@include": fname});
            if let Some(id) = id {
                s["@id"] = id;
            }
        }
    }
}

fn load_str(s: &str, compact: bool, out: &mut Outcome, stage: &str) -> Option<AnnotationStore> {
    match catch(|| AnnotationStore::from_str(s, json_config(compact))) {
        Ok(Ok(st)) => Some(st),
        Ok(Err(e)) => {
            out.fail("reload_ok", format!("{}|{}", err_class(&format!("{}", e)), stage), format!("[{}] reading back the written JSON failed: {}", stage, e));
            None
        }
        Err(p) => {
            out.fail("reload_ok", format!("{}|{}", p.signature(), stage), format!("[{}] reading back the written JSON panicked at {}:{}: {}", stage, p.file, p.line, p.msg));
            None
        }
    }
}

fn load_file(f: &str, compact: bool, out: &mut Outcome, stage: &str) -> Option<AnnotationStore> {
    match catch(|| AnnotationStore::from_file(f, json_config(compact))) {
        Ok(Ok(st)) => Some(st),
        Ok(Err(e)) => {
            out.fail("reload_ok", format!("{}|{}", err_class(&format!("{}", e)), stage), format!("[{}] reading back the written file failed: {}", stage, e));
            None
        }
        Err(p) => {
            out.fail("reload_ok", format!("{}|{}", p.signature(), stage), format!("[{}] reading back the written file panicked at {}:{}: {}", stage, p.file, p.line, p.msg));
            None
        }
    }
}

fn load_file_include(f: &str, compact: bool, dir: &TempDir, out: &mut Outcome, stage: &str) -> Option<AnnotationStore> {
    // use_include is on by default; the compact documents rely on the default, the pretty ones set it explicitly
    let cfg = if compact {
        json_config(compact).with_workdir(dir.0.to_string_lossy().to_string())
    } else {
        json_config(compact).with_use_include(true).with_workdir(dir.0.to_string_lossy().to_string())
    };
    match catch(|| AnnotationStore::from_file(f, cfg)) {
        Ok(Ok(st)) => Some(st),
        Ok(Err(e)) => {
            out.fail("reload_ok", format!("{}|{}", err_class(&format!("{}", e)), stage), format!("[{}] reading the document with @include members failed: {}", stage, e));
            None
        }
        Err(p) => {
            out.fail("reload_ok", format!("{}|{}", p.signature(), stage), format!("[{}] reading the document with @include members panicked at {}:{}: {}", stage, p.file, p.line, p.msg));
            None
        }
    }
}

pub fn err_class(msg: &str) -> String {
    let n = normalise_msg(msg);
    n.chars().take(60).collect()
}

/// compare content and self-consistency; returns false when something failed
fn compare_store(original: &Content, store2: &AnnotationStore, out: &mut Outcome, stage: &str) -> bool {
    let obs2 = match catch(|| observe(store2)) {
        Ok(o) => o,
        Err(p) => {
            out.fail("reload_ok", format!("traverse|{}|{}", p.signature(), stage), format!("[{}] traversing the reloaded store panicked at {}:{}: {}", stage, p.file, p.line, p.msg));
            return false;
        }
    };
    let reloaded = content(&obs2);
    out.checks += 1;
    let diffs = compare(original, &reloaded, true, &value_text);
    let ok = diffs.is_empty();
    report(out, stage, diffs);
    if ok {
        // the reloaded store must be self-consistent (indices rebuilt correctly)
        let mut sc = crate::hcheck::StepCheck {
            findings: vec![],
            diverged: false,
            obs: None,
            checks: 0,
        };
        if catch(|| crate::hcheck::check_consistency(store2, &obs2, &mut sc, None)).is_ok() {
            out.checks += sc.checks;
            for f in sc.findings {
                out.fail(&format!("reloaded.{}", f.failure.facet), format!("{}|{}", f.failure.signature, stage), format!("[{}] {}", stage, f.failure.detail));
            }
        }
    }
    ok && out.failures.is_empty()
}

fn first_diff(a: &str, b: &str) -> String {
    let pos = a.bytes().zip(b.bytes()).position(|(x, y)| x != y).unwrap_or(a.len().min(b.len()));
    let ctx = |s: &str| -> String {
        let mut lo = pos.saturating_sub(60);
        while !s.is_char_boundary(lo) {
            lo -= 1;
        }
        let mut hi = (pos + 60).min(s.len());
        while !s.is_char_boundary(hi) {
            hi += 1;
        }
        s[lo..hi].to_string()
    };
    format!("at byte {}: {:?} vs {:?}", pos, ctx(a), ctx(b))
}

fn first_diff_class(a: &str, b: &str) -> String {
    if a.len() != b.len() {
        "length".into()
    } else {
        "content".into()
    }
}
