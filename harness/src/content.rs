//! Handle-free content snapshot of a store (for serialisation round trips): ordered live items with
//! references expressed as ordinals among live items, offsets with alignment, typed values.

use crate::model::*;
use crate::observe::*;
use serde::Serialize;

#[derive(Clone, Debug, PartialEq, Serialize)]
pub struct CData {
    pub id: Option<String>,
    pub key: String,
    pub value: Val,
}

#[derive(Clone, Debug, PartialEq, Serialize)]
pub struct CSet {
    pub id: Option<String>,
    pub keys: Vec<String>,
    pub data: Vec<CData>,
}

#[derive(Clone, Debug, PartialEq, Serialize)]
pub struct CAnn {
    pub id: Option<String>,
    /// references are ordinals among live items (resource / annotation / set / key-in-set / data-in-set)
    pub target: MSel,
    /// (set ordinal, data ordinal)
    pub data: Vec<(usize, usize)>,
    pub text: Vec<String>,
    /// the store holds this target in internally range-compressed form (informational, not compared)
    #[serde(default)]
    pub ranged: bool,
}

#[derive(Clone, Debug, PartialEq, Serialize)]
pub struct Content {
    pub resources: Vec<(Option<String>, String)>,
    pub sets: Vec<CSet>,
    pub anns: Vec<CAnn>,
}

struct Maps<'a> {
    obs: &'a Obs,
}

impl<'a> Maps<'a> {
    fn res(&self, h: usize) -> usize {
        self.obs.resources.iter().position(|r| r.handle == h).unwrap_or(usize::MAX)
    }
    fn ann(&self, h: usize) -> usize {
        self.obs.anns.iter().position(|r| r.handle == h).unwrap_or(usize::MAX)
    }
    fn set(&self, h: usize) -> usize {
        self.obs.sets.iter().position(|r| r.handle == h).unwrap_or(usize::MAX)
    }
    fn key(&self, s: usize, k: usize) -> usize {
        self.obs
            .sets
            .iter()
            .find(|x| x.handle == s)
            .and_then(|x| x.keys.iter().position(|kk| kk.handle == k))
            .unwrap_or(usize::MAX)
    }
    fn data(&self, s: usize, d: usize) -> usize {
        self.obs
            .sets
            .iter()
            .find(|x| x.handle == s)
            .and_then(|x| x.data.iter().position(|kk| kk.handle == d))
            .unwrap_or(usize::MAX)
    }
    fn sel(&self, s: &MSel) -> MSel {
        match s {
            MSel::Text { res, begin, end, mode } => MSel::Text {
                res: self.res(*res),
                begin: *begin,
                end: *end,
                mode: *mode,
            },
            MSel::Ann { ann, text } => MSel::Ann {
                ann: self.ann(*ann),
                text: text.map(|(r, b, e, m)| (self.res(r), b, e, m)),
            },
            MSel::Res(r) => MSel::Res(self.res(*r)),
            MSel::Set(s) => MSel::Set(self.set(*s)),
            MSel::Key(s, k) => MSel::Key(self.set(*s), self.key(*s, *k)),
            MSel::Data(s, d) => MSel::Data(self.set(*s), self.data(*s, *d)),
            MSel::Multi(v) => MSel::Multi(v.iter().map(|x| self.sel(x)).collect()),
            MSel::Composite(v) => MSel::Composite(v.iter().map(|x| self.sel(x)).collect()),
            MSel::Directional(v) => MSel::Directional(v.iter().map(|x| self.sel(x)).collect()),
        }
    }
}

pub fn content(obs: &Obs) -> Content {
    let m = Maps { obs };
    Content {
        resources: obs.resources.iter().map(|r| (r.id.clone(), r.text.clone())).collect(),
        sets: obs
            .sets
            .iter()
            .map(|s| CSet {
                id: s.id.clone(),
                keys: s.keys.iter().map(|k| k.id.clone().unwrap_or_default()).collect(),
                data: s
                    .data
                    .iter()
                    .map(|d| CData {
                        id: d.id.clone(),
                        key: s
                            .keys
                            .iter()
                            .find(|k| k.handle == d.key)
                            .and_then(|k| k.id.clone())
                            .unwrap_or_else(|| format!("<unresolvable key {}>", d.key)),
                        value: d.value.clone(),
                    })
                    .collect(),
            })
            .collect(),
        anns: obs
            .anns
            .iter()
            .map(|a| CAnn {
                id: a.id.clone(),
                target: m.sel(&a.target),
                data: a.raw_data.iter().map(|(s, d)| (m.set(*s), m.data(*s, *d))).collect(),
                text: a.text.clone(),
                ranged: a.ranged,
            })
            .collect(),
    }
}

/// the same snapshot computed from the reference model (what every item was built with, incl. alignment)
pub fn content_of_model(m: &Model) -> Content {
    let lr = m.live_resources();
    let ls = m.live_sets();
    let la = m.live_anns();
    let res = |h: usize| lr.iter().position(|x| *x == h).unwrap_or(usize::MAX);
    let set = |h: usize| ls.iter().position(|x| *x == h).unwrap_or(usize::MAX);
    let ann = |h: usize| la.iter().position(|x| *x == h).unwrap_or(usize::MAX);
    let key = |s: usize, k: usize| m.sets[s].as_ref().map(|x| x.live_keys().iter().position(|y| *y == k).unwrap_or(usize::MAX)).unwrap_or(usize::MAX);
    let data = |s: usize, d: usize| m.sets[s].as_ref().map(|x| x.live_data().iter().position(|y| *y == d).unwrap_or(usize::MAX)).unwrap_or(usize::MAX);
    fn map(s: &MSel, res: &dyn Fn(usize) -> usize, set: &dyn Fn(usize) -> usize, ann: &dyn Fn(usize) -> usize, key: &dyn Fn(usize, usize) -> usize, data: &dyn Fn(usize, usize) -> usize) -> MSel {
        match s {
            MSel::Text { res: r, begin, end, mode } => MSel::Text { res: res(*r), begin: *begin, end: *end, mode: *mode },
            MSel::Ann { ann: a, text } => MSel::Ann { ann: ann(*a), text: text.map(|(r, b, e, md)| (res(r), b, e, md)) },
            MSel::Res(r) => MSel::Res(res(*r)),
            MSel::Set(s) => MSel::Set(set(*s)),
            MSel::Key(s, k) => MSel::Key(set(*s), key(*s, *k)),
            MSel::Data(s, d) => MSel::Data(set(*s), data(*s, *d)),
            MSel::Multi(v) => MSel::Multi(v.iter().map(|x| map(x, res, set, ann, key, data)).collect()),
            MSel::Composite(v) => MSel::Composite(v.iter().map(|x| map(x, res, set, ann, key, data)).collect()),
            MSel::Directional(v) => MSel::Directional(v.iter().map(|x| map(x, res, set, ann, key, data)).collect()),
        }
    }
    Content {
        resources: lr.iter().map(|r| (Some(m.res(*r).id.clone()), m.res(*r).text.iter().collect())).collect(),
        sets: ls
            .iter()
            .map(|s| {
                let ms = m.set(*s);
                CSet {
                    id: Some(ms.id.clone()),
                    keys: ms.live_keys().iter().map(|k| ms.keys[*k].clone().unwrap()).collect(),
                    data: ms
                        .live_data()
                        .iter()
                        .map(|d| {
                            let md = ms.data[*d].as_ref().unwrap();
                            CData { id: md.id.clone(), key: ms.keys[md.key].clone().unwrap_or_else(|| format!("<removed key {}>", md.key)), value: md.value.clone() }
                        })
                        .collect(),
                }
            })
            .collect(),
        anns: la
            .iter()
            .map(|a| {
                let ma = m.ann(*a);
                CAnn {
                    id: ma.id.clone(),
                    target: map(&ma.target, &res, &set, &ann, &key, &data),
                    data: ma.data.iter().map(|(s, d)| (set(*s), data(*s, *d))).collect(),
                    text: m.text_ranges(*a).iter().map(|r| m.slice(*r)).collect(),
                    ranged: false,
                }
            })
            .collect(),
    }
}

/// Reorder resources and datasets (new position i holds the old item `res_order[i]` / `set_order[i]`) and
/// remap the ordinals inside annotations accordingly.
pub fn permute(c: &Content, res_order: &[usize], set_order: &[usize]) -> Content {
    let rmap = |old: usize| res_order.iter().position(|x| *x == old).unwrap_or(usize::MAX);
    let smap = |old: usize| set_order.iter().position(|x| *x == old).unwrap_or(usize::MAX);
    fn map(s: &MSel, rmap: &dyn Fn(usize) -> usize, smap: &dyn Fn(usize) -> usize) -> MSel {
        match s {
            MSel::Text { res, begin, end, mode } => MSel::Text { res: rmap(*res), begin: *begin, end: *end, mode: *mode },
            MSel::Ann { ann, text } => MSel::Ann { ann: *ann, text: text.map(|(r, b, e, m)| (rmap(r), b, e, m)) },
            MSel::Res(r) => MSel::Res(rmap(*r)),
            MSel::Set(x) => MSel::Set(smap(*x)),
            MSel::Key(x, k) => MSel::Key(smap(*x), *k),
            MSel::Data(x, d) => MSel::Data(smap(*x), *d),
            MSel::Multi(v) => MSel::Multi(v.iter().map(|x| map(x, rmap, smap)).collect()),
            MSel::Composite(v) => MSel::Composite(v.iter().map(|x| map(x, rmap, smap)).collect()),
            MSel::Directional(v) => MSel::Directional(v.iter().map(|x| map(x, rmap, smap)).collect()),
        }
    }
    Content {
        resources: res_order.iter().map(|i| c.resources[*i].clone()).collect(),
        sets: set_order.iter().map(|i| c.sets[*i].clone()).collect(),
        anns: c
            .anns
            .iter()
            .map(|a| CAnn {
                id: a.id.clone(),
                target: map(&a.target, &rmap, &smap),
                data: a.data.iter().map(|(s_, d)| (smap(*s_), *d)).collect(),
                text: a.text.clone(),
                ranged: a.ranged,
            })
            .collect(),
    }
}

fn strip(s: &MSel) -> MSel {
    strip_modes(s)
}

/// kinds of leaves that carry an offset whose mode differs between a and b (same structure assumed)
fn mode_diffs(a: &MSel, b: &MSel, out: &mut Vec<String>) {
    match (a, b) {
        (MSel::Text { mode: m1, .. }, MSel::Text { mode: m2, .. }) => {
            if m1 != m2 {
                out.push(format!("TextSelector|{:?}->{:?}", m1, m2));
            }
        }
        (MSel::Ann { text: Some((_, _, _, m1)), .. }, MSel::Ann { text: Some((_, _, _, m2)), .. }) => {
            if m1 != m2 {
                out.push(format!("AnnotationSelector|{:?}->{:?}", m1, m2));
            }
        }
        (MSel::Multi(x), MSel::Multi(y)) | (MSel::Composite(x), MSel::Composite(y)) | (MSel::Directional(x), MSel::Directional(y)) => {
            for (p, q) in x.iter().zip(y.iter()) {
                mode_diffs(p, q, out);
            }
        }
        _ => {}
    }
}

/// Compare two contents; returns (facet, signature, detail). `typed`: compare value types (JSON) or only
/// their text (CSV).
pub fn compare(a: &Content, b: &Content, typed: bool, value_text: &dyn Fn(&Val) -> String) -> Vec<(String, String, String)> {
    let mut v = vec![];
    if a.resources != b.resources {
        let class = if a.resources.len() != b.resources.len() { "count" } else { "id-or-text" };
        v.push(("resources".to_string(), class.to_string(), format!("resources {:?} became {:?}", a.resources, b.resources)));
    }
    if a.sets.len() != b.sets.len() {
        v.push(("datasets".to_string(), "count".to_string(), format!("{} datasets became {}", a.sets.len(), b.sets.len())));
    } else {
        for (i, (x, y)) in a.sets.iter().zip(b.sets.iter()).enumerate() {
            if x.id != y.id {
                v.push(("datasets".to_string(), "id".to_string(), format!("dataset {} id {:?} became {:?}", i, x.id, y.id)));
            }
            let keys_equal = if typed {
                x.keys == y.keys
            } else {
                // the CSV claim is "the same keys": order is not part of it
                let mut a = x.keys.clone();
                let mut b = y.keys.clone();
                a.sort();
                b.sort();
                a == b
            };
            if !keys_equal {
                v.push(("keys".to_string(), if x.keys.len() != y.keys.len() { "count" } else { "names" }.to_string(), format!("dataset {} keys {:?} became {:?}", i, x.keys, y.keys)));
            }
            if x.data.len() != y.data.len() {
                v.push(("data".to_string(), "count".to_string(), format!("dataset {}: {} data items became {}", i, x.data.len(), y.data.len())));
            } else {
                for (j, (p, q)) in x.data.iter().zip(y.data.iter()).enumerate() {
                    if p.id != q.id {
                        v.push(("data".to_string(), format!("id|{}", if p.id.is_none() { "idless" } else { "with-id" }), format!("dataset {} data {} id {:?} became {:?}", i, j, p.id, q.id)));
                    }
                    if p.key != q.key {
                        v.push(("data".to_string(), "key".to_string(), format!("dataset {} data {} key {:?} became {:?}", i, j, p.key, q.key)));
                    }
                    let same = if typed { p.value.same(&q.value) } else { value_text(&p.value) == value_text(&q.value) };
                    if !same {
                        v.push(("data".to_string(), format!("value|{}", p.value.type_name()), format!("dataset {} data {} value {:?} became {:?}", i, j, p.value, q.value)));
                    }
                }
            }
        }
    }
    if a.anns.len() != b.anns.len() {
        v.push(("annotations".to_string(), "count".to_string(), format!("{} annotations became {}", a.anns.len(), b.anns.len())));
    } else {
        for (i, (x, y)) in a.anns.iter().zip(b.anns.iter()).enumerate() {
            if x.id != y.id {
                v.push(("annotations".to_string(), format!("id|{}", if x.id.is_none() { "idless" } else { "with-id" }), format!("annotation {} id {:?} became {:?}", i, x.id, y.id)));
            }
            let kind = x.target.kind();
            if canon(&x.target) != canon(&y.target) {
                let class = if x.target.kind() != y.target.kind() { "kind" } else { "referents-or-offsets" };
                v.push((format!("target.{}", kind), class.to_string(), format!("annotation {} target {:?} became {:?}", i, canon(&x.target), canon(&y.target))));
            } else {
                // same structure: alignment modes (Multi/Composite leaves compared after canonical sorting of both)
                let mut md = vec![];
                match (&x.target, &y.target) {
                    (MSel::Multi(_), _) | (MSel::Composite(_), _) => {
                        // order-insensitive: compare multisets of (stripped leaf, mode)
                        let key = |s: &MSel| format!("{:?}", s);
                        let mut xs: Vec<String> = x.target.leaves().iter().map(|l| key(l)).collect();
                        let mut ys: Vec<String> = y.target.leaves().iter().map(|l| key(l)).collect();
                        xs.sort();
                        ys.sort();
                        if xs != ys {
                            // which kind of leaf differs: the text selectors or the leaves that select an annotation's text
                            let only = |a: &Vec<String>, b: &Vec<String>| -> Vec<String> {
                                let mut rest = b.clone();
                                a.iter().filter(|l| match rest.iter().position(|r| r == *l) { Some(p) => { rest.remove(p); false } None => true }).cloned().collect()
                            };
                            let differing: Vec<String> = only(&xs, &ys).into_iter().chain(only(&ys, &xs)).collect();
                            if differing.iter().any(|l| l.starts_with("Text")) {
                                md.push(format!("TextSelector|leaf-modes in {}", kind));
                            }
                            if differing.iter().any(|l| !l.starts_with("Text")) {
                                md.push(format!("{}|leaf-modes", kind));
                            }
                        }
                    }
                    _ => mode_diffs(&x.target, &y.target, &mut md),
                }
                for d in md {
                    v.push(("offset.mode".to_string(), format!("{}|{}|{}", if !(x.ranged || y.ranged) { "plain" } else if d.starts_with("TextSelector|") { "ranged-text" } else { "ranged" }, kind, d.split('|').next().unwrap_or("")), format!("annotation {}: alignment changed ({}): {:?} became {:?}", i, d, x.target, y.target)));
                }
            }
            if x.data != y.data {
                v.push(("annotation.data".to_string(), "refs".to_string(), format!("annotation {} data {:?} became {:?}", i, x.data, y.data)));
            }
            let text_equal = if matches!(x.target, MSel::Multi(_) | MSel::Composite(_)) {
                // textual order is only defined per resource: compare the pieces as a multiset
                let mut a = x.text.clone();
                let mut b = y.text.clone();
                a.sort();
                b.sort();
                a == b
            } else {
                x.text == y.text
            };
            if !text_equal {
                v.push(("annotation.text".to_string(), kind.to_string(), format!("annotation {} text {:?} became {:?}", i, x.text, y.text)));
            }
        }
    }
    let _ = strip;
    v
}
