//! Reference model of an annotation store: plain data written from the STAM documentation and the
//! rustdoc of the public API. Shares no code with stam. Handles (= indices) and tombstones are
//! modelled because `Store` documents that handles are never reused.

use serde::{Deserialize, Serialize};
use std::collections::BTreeSet;

#[derive(Clone, Debug, Serialize, Deserialize, PartialEq)]
pub enum Val {
    Null,
    Str(String),
    Bool(bool),
    Int(i64),
    Float(f64),
    List(Vec<Val>),
    /// RFC 3339
    Dt(String),
}

impl Val {
    pub fn to_stam(&self) -> stam::DataValue {
        match self {
            Val::Null => stam::DataValue::Null,
            Val::Str(s) => stam::DataValue::String(s.clone()),
            Val::Bool(b) => stam::DataValue::Bool(*b),
            Val::Int(i) => stam::DataValue::Int(*i as isize),
            Val::Float(f) => stam::DataValue::Float(*f),
            Val::List(v) => stam::DataValue::List(v.iter().map(|x| x.to_stam()).collect()),
            Val::Dt(s) => stam::DataValue::Datetime(
                chrono::DateTime::parse_from_rfc3339(s).expect("generator produces valid RFC3339"),
            ),
        }
    }
    pub fn from_stam(v: &stam::DataValue) -> Val {
        match v {
            stam::DataValue::Null => Val::Null,
            stam::DataValue::String(s) => Val::Str(s.clone()),
            stam::DataValue::Bool(b) => Val::Bool(*b),
            stam::DataValue::Int(i) => Val::Int(*i as i64),
            stam::DataValue::Float(f) => Val::Float(*f),
            stam::DataValue::List(v) => Val::List(v.iter().map(Val::from_stam).collect()),
            stam::DataValue::Datetime(d) => Val::Dt(d.to_rfc3339()),
        }
    }
    /// "same value" in the sense of the vocabulary: same type and same content
    /// (datetimes: same instant and same offset, as chrono's equality on FixedOffset compares instants we normalise through the parsed value)
    pub fn same(&self, other: &Val) -> bool {
        match (self, other) {
            (Val::Dt(a), Val::Dt(b)) => {
                let a = chrono::DateTime::parse_from_rfc3339(a);
                let b = chrono::DateTime::parse_from_rfc3339(b);
                match (a, b) {
                    (Ok(a), Ok(b)) => a == b,
                    _ => false,
                }
            }
            (Val::List(a), Val::List(b)) => a.len() == b.len() && a.iter().zip(b.iter()).all(|(x, y)| x.same(y)),
            (a, b) => a == b,
        }
    }
    pub fn type_name(&self) -> &'static str {
        match self {
            Val::Null => "null",
            Val::Str(_) => "string",
            Val::Bool(_) => "bool",
            Val::Int(_) => "int",
            Val::Float(_) => "float",
            Val::List(_) => "list",
            Val::Dt(_) => "datetime",
        }
    }
}

/// alignment of the two cursors an offset was given with: (begin is end-aligned, end is end-aligned)
pub type Mode = (bool, bool);

#[derive(Clone, Debug, Serialize, Deserialize, PartialEq)]
pub enum MSel {
    /// absolute range in a resource
    Text { res: usize, begin: usize, end: usize, mode: Mode },
    /// annotation, optionally with the absolute range a relative offset resolved to
    Ann { ann: usize, text: Option<(usize, usize, usize, Mode)> },
    Res(usize),
    Set(usize),
    Key(usize, usize),
    Data(usize, usize),
    Multi(Vec<MSel>),
    Composite(Vec<MSel>),
    Directional(Vec<MSel>),
}

impl MSel {
    pub fn kind(&self) -> &'static str {
        match self {
            MSel::Text { .. } => "TextSelector",
            MSel::Ann { .. } => "AnnotationSelector",
            MSel::Res(_) => "ResourceSelector",
            MSel::Set(_) => "DataSetSelector",
            MSel::Key(..) => "DataKeySelector",
            MSel::Data(..) => "AnnotationDataSelector",
            MSel::Multi(_) => "MultiSelector",
            MSel::Composite(_) => "CompositeSelector",
            MSel::Directional(_) => "DirectionalSelector",
        }
    }
    pub fn is_complex(&self) -> bool {
        matches!(self, MSel::Multi(_) | MSel::Composite(_) | MSel::Directional(_))
    }
    /// the simple selectors (self, or the sub-selectors in builder order)
    pub fn leaves(&self) -> Vec<&MSel> {
        match self {
            MSel::Multi(v) | MSel::Composite(v) | MSel::Directional(v) => v.iter().collect(),
            s => vec![s],
        }
    }
    /// (resource, begin, end) of every text selection, in builder order
    pub fn texts(&self) -> Vec<(usize, usize, usize)> {
        self.leaves()
            .into_iter()
            .filter_map(|s| match s {
                MSel::Text { res, begin, end, .. } => Some((*res, *begin, *end)),
                MSel::Ann { text: Some((res, b, e, _)), .. } => Some((*res, *b, *e)),
                _ => None,
            })
            .collect()
    }
    pub fn anns(&self) -> Vec<usize> {
        self.leaves()
            .into_iter()
            .filter_map(|s| match s {
                MSel::Ann { ann, .. } => Some(*ann),
                _ => None,
            })
            .collect()
    }
    pub fn refs_resource(&self, r: usize) -> bool {
        self.leaves().into_iter().any(|s| match s {
            MSel::Text { res, .. } => *res == r,
            MSel::Ann { text: Some((res, ..)), .. } => *res == r,
            MSel::Res(res) => *res == r,
            _ => false,
        })
    }
    pub fn refs_set(&self, s_: usize) -> bool {
        self.leaves().into_iter().any(|s| match s {
            MSel::Set(s) | MSel::Key(s, _) | MSel::Data(s, _) => *s == s_,
            _ => false,
        })
    }
    pub fn refs_key(&self, s_: usize, k_: usize) -> bool {
        self.leaves()
            .into_iter()
            .any(|s| matches!(s, MSel::Key(s, k) if *s == s_ && *k == k_))
    }
    pub fn refs_data(&self, s_: usize, d_: usize) -> bool {
        self.leaves()
            .into_iter()
            .any(|s| matches!(s, MSel::Data(s, d) if *s == s_ && *d == d_))
    }
}

#[derive(Clone, Debug, Serialize, Deserialize, PartialEq)]
pub struct MRes {
    pub id: String,
    pub text: Vec<char>,
}

#[derive(Clone, Debug, Serialize, Deserialize, PartialEq)]
pub struct MData {
    pub id: Option<String>,
    pub key: usize,
    pub value: Val,
}

#[derive(Clone, Debug, Serialize, Deserialize, PartialEq)]
pub struct MSet {
    pub id: String,
    pub keys: Vec<Option<String>>,
    pub data: Vec<Option<MData>>,
}

impl MSet {
    pub fn key_by_id(&self, id: &str) -> Option<usize> {
        self.keys.iter().position(|k| k.as_deref() == Some(id))
    }
    pub fn data_by_id(&self, id: &str) -> Option<usize> {
        self.data
            .iter()
            .position(|d| d.as_ref().and_then(|d| d.id.as_deref()) == Some(id))
    }
    pub fn live_keys(&self) -> Vec<usize> {
        (0..self.keys.len()).filter(|i| self.keys[*i].is_some()).collect()
    }
    pub fn live_data(&self) -> Vec<usize> {
        (0..self.data.len()).filter(|i| self.data[*i].is_some()).collect()
    }
    /// documented insert semantics (AnnotationDataSet::insert_data with safety on):
    /// existing id -> that item; id-less and (key,value) exists -> that item; else a new item
    /// (a missing key is created). Returns (handle, created_new_data).
    pub fn insert_data(&mut self, id: Option<&str>, key: &str, value: &Val) -> (usize, bool) {
        if let Some(id) = id {
            if let Some(d) = self.data_by_id(id) {
                return (d, false);
            }
        }
        let k = match self.key_by_id(key) {
            Some(k) => k,
            None => {
                self.keys.push(Some(key.to_string()));
                self.keys.len() - 1
            }
        };
        if id.is_none() {
            for (i, d) in self.data.iter().enumerate() {
                if let Some(d) = d {
                    if d.key == k && d.value.same(value) {
                        return (i, false);
                    }
                }
            }
        }
        self.data.push(Some(MData {
            id: id.map(|s| s.to_string()),
            key: k,
            value: value.clone(),
        }));
        (self.data.len() - 1, true)
    }
}

#[derive(Clone, Debug, Serialize, Deserialize, PartialEq)]
pub struct MAnn {
    pub id: Option<String>,
    pub target: MSel,
    pub data: Vec<(usize, usize)>,
}

#[derive(Clone, Debug, Default, Serialize, Deserialize, PartialEq)]
pub struct Model {
    pub resources: Vec<Option<MRes>>,
    pub sets: Vec<Option<MSet>>,
    pub anns: Vec<Option<MAnn>>,
}

pub const TEXTVALIDATION_SET: &str = "https://w3id.org/stam/extensions/stam-textvalidation/";

impl Model {
    pub fn live_resources(&self) -> Vec<usize> {
        (0..self.resources.len()).filter(|i| self.resources[*i].is_some()).collect()
    }
    pub fn live_sets(&self) -> Vec<usize> {
        (0..self.sets.len()).filter(|i| self.sets[*i].is_some()).collect()
    }
    pub fn live_anns(&self) -> Vec<usize> {
        (0..self.anns.len()).filter(|i| self.anns[*i].is_some()).collect()
    }
    pub fn set_by_id(&self, id: &str) -> Option<usize> {
        self.sets.iter().position(|s| s.as_ref().map(|s| s.id.as_str()) == Some(id))
    }
    pub fn res_by_id(&self, id: &str) -> Option<usize> {
        self.resources
            .iter()
            .position(|s| s.as_ref().map(|s| s.id.as_str()) == Some(id))
    }
    pub fn ann_by_id(&self, id: &str) -> Option<usize> {
        self.anns
            .iter()
            .position(|s| s.as_ref().and_then(|s| s.id.as_deref()) == Some(id))
    }
    pub fn ann(&self, a: usize) -> &MAnn {
        self.anns[a].as_ref().expect("live annotation")
    }
    pub fn set(&self, s: usize) -> &MSet {
        self.sets[s].as_ref().expect("live set")
    }
    pub fn res(&self, r: usize) -> &MRes {
        self.resources[r].as_ref().expect("live resource")
    }

    /// the single text selection an annotation denotes (TextSelector or AnnotationSelector with offset)
    pub fn single_text(&self, a: usize) -> Option<(usize, usize, usize)> {
        match &self.ann(a).target {
            MSel::Text { res, begin, end, .. } => Some((*res, *begin, *end)),
            MSel::Ann { text: Some((res, b, e, _)), .. } => Some((*res, *b, *e)),
            _ => None,
        }
    }

    /// text pieces of an annotation in the documented order (textual, or builder order for Directional)
    pub fn text_ranges(&self, a: usize) -> Vec<(usize, usize, usize)> {
        let t = &self.ann(a).target;
        let mut v = t.texts();
        if !matches!(t, MSel::Directional(_)) {
            v.sort();
        }
        v
    }
    pub fn slice(&self, r: (usize, usize, usize)) -> String {
        self.res(r.0).text[r.1..r.2].iter().collect()
    }

    /// transitive closure: every live annotation that targets a doomed annotation is doomed too
    fn close(&self, doomed: &mut BTreeSet<usize>) {
        loop {
            let mut grew = false;
            for a in self.live_anns() {
                if doomed.contains(&a) {
                    continue;
                }
                if self.ann(a).target.anns().iter().any(|t| doomed.contains(t)) {
                    doomed.insert(a);
                    grew = true;
                }
            }
            if !grew {
                break;
            }
        }
    }
    fn kill(&mut self, doomed: &BTreeSet<usize>) {
        for a in doomed {
            self.anns[*a] = None;
        }
    }

    pub fn remove_annotation(&mut self, a: usize) -> BTreeSet<usize> {
        let mut doomed = BTreeSet::new();
        doomed.insert(a);
        self.close(&mut doomed);
        self.kill(&doomed);
        doomed
    }
    pub fn remove_resource(&mut self, r: usize) -> BTreeSet<usize> {
        let mut doomed: BTreeSet<usize> = self
            .live_anns()
            .into_iter()
            .filter(|a| self.ann(*a).target.refs_resource(r))
            .collect();
        self.close(&mut doomed);
        self.kill(&doomed);
        self.resources[r] = None;
        doomed
    }
    pub fn remove_dataset(&mut self, s: usize) -> BTreeSet<usize> {
        let mut doomed: BTreeSet<usize> = self
            .live_anns()
            .into_iter()
            .filter(|a| {
                let ann = self.ann(*a);
                ann.target.refs_set(s) || ann.data.iter().any(|(ds, _)| *ds == s)
            })
            .collect();
        self.close(&mut doomed);
        self.kill(&doomed);
        self.sets[s] = None;
        doomed
    }
    /// returns (removed annotations, annotations that merely lost the datum)
    pub fn remove_data(&mut self, s: usize, d: usize, strict: bool) -> (BTreeSet<usize>, BTreeSet<usize>) {
        let mut doomed = BTreeSet::new();
        let mut modified = BTreeSet::new();
        for a in self.live_anns() {
            let ann = self.anns[a].as_mut().unwrap();
            if ann.target.refs_data(s, d) {
                doomed.insert(a);
                continue;
            }
            if ann.data.contains(&(s, d)) {
                if strict {
                    doomed.insert(a);
                } else {
                    ann.data.retain(|x| *x != (s, d));
                    if ann.data.is_empty() {
                        doomed.insert(a);
                    } else {
                        modified.insert(a);
                    }
                }
            }
        }
        self.close(&mut doomed);
        self.kill(&doomed);
        if let Some(set) = self.sets[s].as_mut() {
            set.data[d] = None;
        }
        let modified = modified.into_iter().filter(|a| !doomed.contains(a)).collect();
        (doomed, modified)
    }
    pub fn remove_key(&mut self, s: usize, k: usize, strict: bool) -> (BTreeSet<usize>, BTreeSet<usize>) {
        let mut doomed = BTreeSet::new();
        let mut modified = BTreeSet::new();
        let data: Vec<usize> = self
            .set(s)
            .live_data()
            .into_iter()
            .filter(|d| self.set(s).data[*d].as_ref().unwrap().key == k)
            .collect();
        for d in data {
            let (dd, mm) = self.remove_data(s, d, strict);
            doomed.extend(dd);
            modified.extend(mm);
        }
        let mut more: BTreeSet<usize> = self
            .live_anns()
            .into_iter()
            .filter(|a| self.ann(*a).target.refs_key(s, k))
            .collect();
        self.close(&mut more);
        self.kill(&more);
        doomed.extend(more);
        if let Some(set) = self.sets[s].as_mut() {
            set.keys[k] = None;
        }
        let modified = modified.into_iter().filter(|a| !doomed.contains(a)).collect();
        (doomed, modified)
    }

    /// does anything live depend on annotation `a` (for non-triviality accounting)
    pub fn dependents_of_ann(&self, a: usize) -> usize {
        self.live_anns()
            .into_iter()
            .filter(|x| self.ann(*x).target.anns().contains(&a))
            .count()
    }
}
