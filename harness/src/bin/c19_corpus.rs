//! Helper binary of property C19.
//!   c19_corpus worker <dir>             child process of `check C19`: runs one case per input line (counting allocator)
//!   c19_corpus emit <dir> <n>           seed corpus for the libFuzzer targets: <dir>/{c19_json,c19_csv,c19_cbor}/seed-*
//!   c19_corpus to-replay <target> <f>   print a harness replay file for a raw fuzz input (artifact)
//!   c19_corpus show <replay file>      development aid: print the (mutated) document set of a case
//!   c19_corpus survey <n> <seed> [fmt]  development aid: run n generated cases without stopping, tally failures and labels
use stamverif::props::c19;

#[global_allocator]
static GLOBAL: c19::alloc::CountingAlloc = c19::alloc::CountingAlloc;

fn usage() -> ! {
    eprintln!("usage: c19_corpus worker <dir> | emit <dir> <n> | to-replay <c19_json|c19_csv|c19_cbor> <artifact>");
    std::process::exit(2)
}

fn main() {
    let args: Vec<String> = std::env::args().skip(1).collect();
    match args.first().map(|s| s.as_str()) {
        Some("worker") => {
            let Some(dir) = args.get(1) else { usage() };
            std::process::exit(c19::worker_main(dir));
        }
        Some("emit") => {
            let (Some(dir), Some(n)) = (args.get(1), args.get(2).and_then(|s| s.parse::<usize>().ok())) else { usage() };
            match c19::emit_corpus(std::path::Path::new(dir), n) {
                Ok(k) => println!("{} seed files written under {}", k, dir),
                Err(e) => {
                    eprintln!("emit failed: {}", e);
                    std::process::exit(2);
                }
            }
        }
        Some("to-replay") => {
            let (Some(target), Some(file)) = (args.get(1), args.get(2)) else { usage() };
            match std::fs::read(file) {
                Ok(data) => println!("{}", c19::raw_replay(target, &data)),
                Err(e) => {
                    eprintln!("cannot read {}: {}", file, e);
                    std::process::exit(2);
                }
            }
        }
        Some("show") => match c19::show(std::path::Path::new(args.get(1).unwrap_or_else(|| usage()))) {
            Ok(s) => println!("{}", s),
            Err(e) => {
                eprintln!("{}", e);
                std::process::exit(2);
            }
        },
        Some("cbor-roundtrip") => {
            let data = std::fs::read(args.get(1).unwrap_or_else(|| usage())).unwrap();
            match c19::mutate::C::parse_stam(&data) {
                Some(c) => println!("parsed; re-encoding identical: {}", c.write() == data),
                None => println!("not parseable"),
            }
        }
        Some("cbor-classes") => {
            // development aid: the path classes of the definite-length headers of a CBOR file, with counts
            let data = std::fs::read(args.get(1).unwrap_or_else(|| usage())).unwrap();
            match c19::mutate::C::parse_stam(&data) {
                Some(c) => {
                    let mut m = std::collections::BTreeMap::new();
                    for h in c.headers() {
                        *m.entry(h).or_insert(0usize) += 1;
                    }
                    for (h, n) in m {
                        println!("{:6} {}", n, h);
                    }
                }
                None => println!("not parseable"),
            }
        }
        Some("survey") => {
            let n = args.get(1).and_then(|s| s.parse::<usize>().ok()).unwrap_or(2000);
            let seed = args.get(2).and_then(|s| s.parse::<u64>().ok()).unwrap_or(1);
            c19::survey(n, seed, args.get(3).map(|s| s.as_str()));
        }
        _ => usage(),
    }
}
