use stamverif::engine::{self, Opts, Tier};
use stamverif::props;

fn usage() -> ! {
    eprintln!("usage: check <Cxx> [--tier quick|thorough] [--seed N] [--replay FILE] [--cases N] [--strict] [--no-evidence] [--threads N]");
    std::process::exit(2)
}

fn main() {
    let args: Vec<String> = std::env::args().skip(1).collect();
    if args.is_empty() {
        usage();
    }
    let id = args[0].clone();
    let mut opts = Opts {
        tier: match std::env::var("VERIF_TIER").as_deref() {
            Ok("thorough") => Tier::Thorough,
            _ => Tier::Quick,
        },
        seed: std::env::var("VERIF_SEED")
            .ok()
            .and_then(|s| s.trim().parse::<i128>().ok())
            .map(|v| v as u64)
            .unwrap_or(engine::DEFAULT_SEED),
        replay: None,
        cases_override: None,
        strict: false,
        no_evidence: false,
        threads: std::thread::available_parallelism().map(|n| n.get()).unwrap_or(4).min(16),
    };
    let mut i = 1;
    while i < args.len() {
        match args[i].as_str() {
            "--tier" => {
                i += 1;
                opts.tier = match args.get(i).map(|s| s.as_str()) {
                    Some("quick") => Tier::Quick,
                    Some("thorough") => Tier::Thorough,
                    _ => usage(),
                }
            }
            "--seed" => {
                i += 1;
                opts.seed = args.get(i).and_then(|s| s.parse().ok()).unwrap_or_else(|| usage());
            }
            "--replay" => {
                i += 1;
                opts.replay = Some(args.get(i).cloned().unwrap_or_else(|| usage()).into());
                opts.no_evidence = true;
            }
            "--cases" => {
                i += 1;
                opts.cases_override = args.get(i).and_then(|s| s.parse().ok());
            }
            "--threads" => {
                i += 1;
                opts.threads = args.get(i).and_then(|s| s.parse().ok()).unwrap_or(16);
            }
            "--strict" => opts.strict = true,
            "--no-evidence" => opts.no_evidence = true,
            _ => usage(),
        }
        i += 1;
    }
    let code = match id.as_str() {
        "C01" => engine::main_for(props::c01::C01, &opts),
        "C02" => engine::main_for(props::c01::C02, &opts),
        "C13" => engine::main_for(props::c13::C13, &opts),
        _ => {
            eprintln!("unknown property {}", id);
            2
        }
    };
    std::process::exit(code);
}
