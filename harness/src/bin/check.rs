use stamverif::engine::{self, Opts, Tier};
use stamverif::props;

fn usage() -> ! {
    eprintln!("usage: check <Cxx> [--tier quick|thorough] [--seed N] [--replay FILE] [--cases N] [--strict] [--no-evidence] [--threads N]");
    std::process::exit(2)
}

fn main() {
    let args: Vec<String> = std::env::args().skip(1).collect();
    if args.is_empty() {
        usage();
    }
    let id = args[0].clone();
    let mut opts = Opts {
        tier: match std::env::var("VERIF_TIER").as_deref() {
            Ok("thorough") => Tier::Thorough,
            _ => Tier::Quick,
        },
        seed: std::env::var("VERIF_SEED")
            .ok()
            .and_then(|s| s.trim().parse::<i128>().ok())
            .map(|v| v as u64)
            .unwrap_or(engine::DEFAULT_SEED),
        replay: None,
        cases_override: None,
        frac: None,
        strict: false,
        no_evidence: false,
        threads: std::thread::available_parallelism().map(|n| n.get()).unwrap_or(4).min(16),
    };
    let mut i = 1;
    while i < args.len() {
        match args[i].as_str() {
            "--tier" => {
                i += 1;
                opts.tier = match args.get(i).map(|s| s.as_str()) {
                    Some("quick") => Tier::Quick,
                    Some("thorough") => Tier::Thorough,
                    _ => usage(),
                }
            }
            "--seed" => {
                i += 1;
                opts.seed = args.get(i).and_then(|s| s.parse().ok()).unwrap_or_else(|| usage());
            }
            "--replay" => {
                i += 1;
                opts.replay = Some(args.get(i).cloned().unwrap_or_else(|| usage()).into());
                opts.no_evidence = true;
            }
            "--cases" => {
                i += 1;
                opts.cases_override = args.get(i).and_then(|s| s.parse().ok());
            }
            "--frac" => {
                i += 1;
                opts.frac = args.get(i).and_then(|s| s.parse().ok());
            }
            "--threads" => {
                i += 1;
                opts.threads = args.get(i).and_then(|s| s.parse().ok()).unwrap_or(16);
            }
            "--strict" => opts.strict = true,
            "--no-evidence" => opts.no_evidence = true,
            _ => usage(),
        }
        i += 1;
    }
    let code = match id.as_str() {
        "C01" => engine::main_for(props::c01::C01, &opts),
        "C02" => engine::main_for(props::c01::C02, &opts),
        "C03" => engine::main_for(props::c03::C03, &opts),
        "C04" => engine::main_for(props::c04::C04, &opts),
        "C05" => engine::main_for(props::c05::C05, &opts),
        "C06" => engine::main_for(props::c06::C06, &opts),
        "C07" => engine::main_for(props::c07::C07, &opts),
        "C08" => engine::main_for(props::c08::C08, &opts),
        "C09" => engine::main_for(props::c09::C09, &opts),
        "C10" => engine::main_for(props::c10::C10, &opts),
        "C11" => engine::main_for(props::c11::C11, &opts),
        "C12" => engine::main_for(props::c12::C12, &opts),
        "C13" => engine::main_for(props::c13::C13, &opts),
        "C14" => engine::main_for(props::c14::C14, &opts),
        "C15" => engine::main_for(props::c15::C15, &opts),
        "C16" => engine::main_for(props::c16::C16, &opts),
        "C17" => engine::main_for(props::c17::C17, &opts),
        "C18" => engine::main_for(props::c18::C18, &opts),
        "C19" => engine::main_for(props::c19::C19, &opts),
        "C20" => engine::main_for(props::c20::C20, &opts),
        _ => {
            eprintln!("unknown property {}", id);
            2
        }
    };
    std::process::exit(code);
}
