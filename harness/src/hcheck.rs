//! Per-step checks of a history: store vs model (live sets, forward references), self-consistency of
//! the store (high-level forward views, reverse lookups, raw index dump vs brute force over the store's own
//! forward references). Every finding carries the family (property) that owns its facet.

use crate::engine::{catch, normalise_msg, Failure};
use crate::hist::*;
use crate::model::*;
use crate::observe::*;
use stam::*;
use std::collections::BTreeMap;

#[derive(Clone, Copy, Debug, PartialEq, Eq)]
pub enum Fam {
    /// reverse lookups / forward references (C01)
    Index,
    /// cascade, return values, dangling references (C02)
    Cascade,
}

#[derive(Clone, Debug)]
pub struct Finding {
    pub fam: Fam,
    pub failure: Failure,
}

pub struct StepCheck {
    pub findings: Vec<Finding>,
    /// store and model no longer agree on what exists: the history must stop here
    pub diverged: bool,
    pub obs: Option<Obs>,
    pub checks: u64,
}

impl StepCheck {
    fn add(&mut self, fam: Fam, facet: &str, sig: impl Into<String>, detail: impl Into<String>) {
        let signature: String = sig.into().replace(' ', "_");
        if self
            .findings
            .iter()
            .any(|f| f.failure.facet == facet && f.failure.signature == signature)
        {
            return;
        }
        let mut detail: String = detail.into();
        if detail.len() > 1500 {
            let mut cut = 1500;
            while !detail.is_char_boundary(cut) {
                cut -= 1;
            }
            detail.truncate(cut);
        }
        self.findings.push(Finding {
            fam,
            failure: Failure {
                facet: facet.to_string(),
                signature,
                detail,
            },
        });
    }
}

fn err_class(msg: &str) -> String {
    // keep the error type (text before the first ':') and a normalised remainder
    let n = normalise_msg(msg);
    let mut s: String = n.chars().take(70).collect();
    s = s.replace('|', "/");
    s
}

fn diff_lists(expected: &[usize], got: &[usize]) -> Option<&'static str> {
    if expected == got {
        return None;
    }
    let mut e = expected.to_vec();
    let mut g = got.to_vec();
    e.sort();
    g.sort();
    if e == g {
        return Some("order");
    }
    let mut gd = g.clone();
    gd.dedup();
    let mut ed = e.clone();
    ed.dedup();
    if gd == ed && g.len() > e.len() {
        return Some("dup");
    }
    if gd.iter().any(|x| !ed.contains(x)) {
        if ed.iter().any(|x| !gd.contains(x)) {
            return Some("missing+extra");
        }
        return Some("extra");
    }
    Some("missing")
}

/// everything the store's own forward references imply for the reverse lookups
struct Brute<'a> {
    obs: &'a Obs,
}

impl<'a> Brute<'a> {
    fn anns_with<F: Fn(&AnnObs) -> usize>(&self, f: F) -> Vec<usize> {
        // one entry per reference (an annotation naming an item twice appears twice), chronological
        let mut v = vec![];
        for a in &self.obs.anns {
            for _ in 0..f(a) {
                v.push(a.handle);
            }
        }
        v
    }
}

fn leaves_count<F: Fn(&MSel) -> bool>(t: &MSel, f: F) -> usize {
    t.leaves().into_iter().filter(|s| f(s)).count()
}

pub fn check_step(m: &Machine, op: &Op, step: &Step, any_removal_so_far: bool) -> StepCheck {
    let mut sc = StepCheck {
        findings: vec![],
        diverged: false,
        obs: None,
        checks: 0,
    };
    let removal = op.is_removal();
    let fam_step = if removal { Fam::Cascade } else { Fam::Index };

    // ---- 1. the call itself
    if let Some(p) = &step.panic {
        sc.add(
            fam_step,
            &format!("panic.{}", step.kind),
            p.signature(),
            format!("{} panicked at {}:{}: {}", step.kind, p.file, p.line, p.msg),
        );
        sc.diverged = true;
        return sc;
    }
    if let Err(e) = &step.result {
        let facet = if removal { "retval".to_string() } else { format!("accept.{}", step.kind) };
        let extra = step.labels.first().copied().unwrap_or("");
        sc.add(
            fam_step,
            &facet,
            format!("{}|{}|{}", step.kind, extra, err_class(e)),
            format!("{} returned Err({}) for a request the documentation makes valid", step.kind, e),
        );
        sc.diverged = true;
        // still look at the store below (a failed removal must not have half-happened), but against the pre-state
        return sc;
    }
    if let Some(mm) = &step.mismatch {
        sc.add(Fam::Index, "handle", step.kind, mm.clone());
        sc.diverged = true;
        return sc;
    }

    // ---- 2. observe
    let obs = match catch(|| observe(&m.store)) {
        Ok(o) => o,
        Err(p) => {
            let fam = if any_removal_so_far { Fam::Cascade } else { Fam::Index };
            let facet = if any_removal_so_far { "dangling.observe" } else { "panic.observe" };
            sc.add(
                fam,
                facet,
                p.signature(),
                format!("traversing the store after {} panicked at {}:{}: {}", step.kind, p.file, p.line, p.msg),
            );
            sc.diverged = true;
            return sc;
        }
    };

    // ---- 3. live sets vs model
    let model = &m.model;
    {
        let cmp = |sc: &mut StepCheck, what: &str, expected: Vec<usize>, got: Vec<usize>| {
            sc.checks += 1;
            if expected != got {
                let over: Vec<_> = expected.iter().filter(|x| !got.contains(x)).collect();
                let under: Vec<_> = got.iter().filter(|x| !expected.contains(x)).collect();
                let class = match (over.is_empty(), under.is_empty()) {
                    (false, true) => "over-deletion",
                    (true, false) => "under-deletion",
                    _ => "both",
                };
                let (fam, facet) = if removal {
                    (Fam::Cascade, format!("survivors.{}", what))
                } else {
                    (Fam::Index, format!("liveset.{}", what))
                };
                let class = if removal {
                    class
                } else {
                    match (over.is_empty(), under.is_empty()) {
                        (false, true) => "missing",
                        (true, false) => "extra",
                        _ => "both",
                    }
                };
                sc.add(
                    fam,
                    &facet,
                    format!("{}|{}", step.kind, class),
                    format!(
                        "after {}: live {} handles are {:?}, the model expects {:?}",
                        step.kind, what, got, expected
                    ),
                );
                sc.diverged = true;
            }
        };
        cmp(&mut sc, "annotations", model.live_anns(), obs.anns.iter().map(|a| a.handle).collect());
        cmp(&mut sc, "resources", model.live_resources(), obs.resources.iter().map(|a| a.handle).collect());
        cmp(&mut sc, "datasets", model.live_sets(), obs.sets.iter().map(|a| a.handle).collect());
        if !sc.diverged {
            for s in &obs.sets {
                let ms = model.set(s.handle);
                cmp(&mut sc, "keys", ms.live_keys(), s.keys.iter().map(|k| k.handle).collect());
                cmp(&mut sc, "data", ms.live_data(), s.data.iter().map(|k| k.handle).collect());
            }
        }
    }
    if sc.diverged {
        sc.obs = Some(obs);
        return sc;
    }

    // ---- 4. forward references vs model
    for a in &obs.anns {
        let ma = model.ann(a.handle);
        sc.checks += 3;
        if canon(&a.target) != canon(&ma.target) {
            sc.add(
                Fam::Index,
                "forward.target",
                format!("{}|{}", ma.target.kind(), if a.ranged { "ranged" } else { "plain" }),
                format!(
                    "annotation {} target is {:?}, it was built with {:?}",
                    a.handle,
                    canon(&a.target),
                    canon(&ma.target)
                ),
            );
            sc.diverged = true;
        } else {
            // same structure: every text selector leaf is also reported with the alignment it was built with
            // (leaves that select the text of an annotation are C05's listed finding about range compression)
            let texts = |s: &MSel| -> Vec<String> {
                let mut v: Vec<String> = s.leaves().into_iter().filter(|l| matches!(l, MSel::Text { .. })).map(|l| format!("{:?}", l)).collect();
                if !matches!(s, MSel::Directional(_)) {
                    v.sort();
                }
                v
            };
            let (got, want) = (texts(&a.target), texts(&ma.target));
            if got != want {
                sc.add(
                    Fam::Index,
                    "forward.alignment",
                    format!("{}|{}", ma.target.kind(), if a.ranged { "ranged" } else { "plain" }),
                    format!("annotation {} reports the text selectors {:?}, it was built with {:?}", a.handle, got, want),
                );
            }
        }
        if a.raw_data != ma.data {
            let (fam, facet) = if removal {
                (Fam::Cascade, "lost_data")
            } else {
                (Fam::Index, "forward.data")
            };
            sc.add(
                fam,
                facet,
                step.kind,
                format!("annotation {} data is {:?}, expected {:?} after {}", a.handle, a.raw_data, ma.data, step.kind),
            );
            sc.diverged = true;
        }
        if a.id != ma.id {
            sc.add(
                Fam::Index,
                "forward.id",
                "annotation",
                format!("annotation {} id is {:?}, expected {:?}", a.handle, a.id, ma.id),
            );
        }
    }
    for r in &obs.resources {
        let mr = model.res(r.handle);
        sc.checks += 1;
        let t: String = mr.text.iter().collect();
        if r.text != t || r.id.as_deref() != Some(mr.id.as_str()) {
            sc.add(
                Fam::Index,
                "forward.resource",
                "text-or-id",
                format!("resource {} is ({:?},{:?}), expected ({:?},{:?})", r.handle, r.id, r.text, mr.id, t),
            );
        }
    }
    for s in &obs.sets {
        let ms = model.set(s.handle);
        if s.id.as_deref() != Some(ms.id.as_str()) {
            sc.add(Fam::Index, "forward.dataset", "id", format!("dataset {} id {:?} expected {:?}", s.handle, s.id, ms.id));
        }
        for k in &s.keys {
            sc.checks += 1;
            if k.id != ms.keys[k.handle] {
                sc.add(
                    Fam::Index,
                    "forward.key",
                    "id",
                    format!("key ({},{}) id {:?} expected {:?}", s.handle, k.handle, k.id, ms.keys[k.handle]),
                );
            }
        }
        for d in &s.data {
            let md = ms.data[d.handle].as_ref().unwrap();
            sc.checks += 1;
            if d.id != md.id || d.key != md.key || !d.value.same(&md.value) {
                sc.add(
                    Fam::Index,
                    "forward.dataitem",
                    "id-key-value",
                    format!(
                        "data ({},{}) is ({:?},{},{:?}) expected ({:?},{},{:?})",
                        s.handle, d.handle, d.id, d.key, d.value, md.id, md.key, md.value
                    ),
                );
            }
        }
    }
    if sc.diverged {
        sc.obs = Some(obs);
        return sc;
    }

    // ---- 5..7 self-consistency of the store
    check_consistency(&m.store, &obs, &mut sc, Some(model));
    sc.obs = Some(obs);
    sc
}

/// Self-consistency of a store: high-level forward views, reverse lookups and the raw index dump must
/// all follow from the store's own forward references. Usable without a model (C05, C11, C19).
pub fn check_consistency(store: &AnnotationStore, obs: &Obs, sc: &mut StepCheck, model: Option<&Model>) {
    let text_of = |r: (usize, usize, usize)| -> Option<String> {
        obs.resources
            .iter()
            .find(|x| x.handle == r.0)
            .map(|res| res.text.chars().skip(r.1).take(r.2 - r.1).collect())
    };
    // ---- 5. high-level forward views
    for a in &obs.anns {
        let directional = matches!(a.target, MSel::Directional(_));
        let mut texts = a.target.texts();
        if !directional {
            texts.sort();
        }
        sc.checks += 8;
        let kind = a.target.kind();
        // text selections: each once per reference; textual order unless directional
        // textual order is defined per resource; the relative order of different resources is not documented
        let per_resource_ok = {
            let mut ok = true;
            if !directional {
                let mut resources: Vec<usize> = a.tsels.iter().map(|t| t.0).collect();
                resources.sort();
                resources.dedup();
                for r in resources {
                    let sub: Vec<_> = a.tsels.iter().filter(|t| t.0 == r).cloned().collect();
                    let mut sorted = sub.clone();
                    sorted.sort();
                    if sub != sorted {
                        ok = false;
                    }
                }
            }
            ok
        };
        let same_multiset = {
            let mut g = a.tsels.clone();
            g.sort();
            let mut e = texts.clone();
            e.sort();
            g == e
        };
        let tsels_ok = if directional { a.tsels == texts } else { same_multiset && per_resource_ok };
        if tsels_ok && a.tsels != texts {
            // reorder expectation to the order the store uses across resources
            texts = a.tsels.clone();
        }
        if a.tsels != texts {
            let mut got_sorted = a.tsels.clone();
            got_sorted.sort();
            let mut exp_sorted = texts.clone();
            exp_sorted.sort();
            let class = if got_sorted == exp_sorted { "order" } else { "content" };
            sc.add(
                Fam::Index,
                "forward.textselections",
                format!("{}|{}|{}", kind, class, if a.ranged { "ranged" } else { "plain" }),
                format!("annotation {} textselections() = {:?}, its target implies {:?}", a.handle, a.tsels, texts),
            );
        } else {
            let exp_text: Vec<String> = texts.iter().filter_map(|r| text_of(*r)).collect();
            if a.text != exp_text {
                sc.add(
                    Fam::Index,
                    "forward.text",
                    kind,
                    format!("annotation {} text() = {:?}, the addressed codepoints are {:?}", a.handle, a.text, exp_text),
                );
            }
            let exp_simple = if exp_text.len() == 1 { Some(exp_text[0].clone()) } else { None };
            if a.text_simple != exp_simple {
                sc.add(
                    Fam::Index,
                    "forward.text_simple",
                    kind,
                    format!("annotation {} text_simple() = {:?}, expected {:?}", a.handle, a.text_simple, exp_simple),
                );
            }
        }
        let mut anns = a.target.anns();
        let mut got = a.in_targets.clone();
        if !directional {
            anns.sort();
            got.sort();
        }
        if got != anns {
            sc.add(
                Fam::Index,
                "forward.annotations_in_targets",
                format!("{}|{}", kind, diff_lists(&anns, &got).unwrap_or("?")),
                format!("annotation {} annotations_in_targets(One) = {:?}, its target names {:?}", a.handle, a.in_targets, anns),
            );
        }
        // depth Max: the transitive closure over annotation selectors (order not compared)
        {
            let mut closure: Vec<usize> = vec![];
            let mut stack: Vec<usize> = a.target.anns();
            while let Some(x) = stack.pop() {
                if closure.contains(&x) {
                    continue;
                }
                closure.push(x);
                if let Some(t) = obs.anns.iter().find(|o| o.handle == x) {
                    stack.extend(t.target.anns());
                }
            }
            closure.sort();
            let mut got_max = a.in_targets_max.clone();
            got_max.sort();
            got_max.dedup();
            if got_max != closure {
                sc.add(
                    Fam::Index,
                    "forward.annotations_in_targets_max",
                    format!("{}|{}", kind, diff_lists(&closure, &got_max).unwrap_or("?")),
                    format!("annotation {} annotations_in_targets(Max) = {:?}, the transitive closure of its targets is {:?}", a.handle, a.in_targets_max, closure),
                );
            }
        }
        let set_of = |f: &dyn Fn(&MSel) -> Option<usize>| -> Vec<usize> {
            let mut v: Vec<usize> = a.target.leaves().into_iter().filter_map(|s| f(s)).collect();
            v.sort();
            v.dedup();
            v
        };
        // the *_as_metadata views follow annotation selectors recursively although their rustdoc says
        // "directly": ambiguous, so they are only compared for annotations without annotation selectors
        let no_ann = a.target.anns().is_empty();
        let exp_res_meta = set_of(&|s| if let MSel::Res(r) = s { Some(*r) } else { None });
        if no_ann && a.res_meta != exp_res_meta {
            sc.add(Fam::Index, "forward.resources_as_metadata", kind, format!("annotation {}: {:?} vs {:?}", a.handle, a.res_meta, exp_res_meta));
        }
        let exp_sets = set_of(&|s| if let MSel::Set(r) = s { Some(*r) } else { None });
        let mut got_sets = a.sets_meta.clone();
        got_sets.sort(); // order not documented, duplicates are
        if got_sets != exp_sets {
            sc.add(Fam::Index, "forward.datasets", kind, format!("annotation {}: {:?} vs {:?}", a.handle, a.sets_meta, exp_sets));
        }
        let mut exp_keys: Vec<(usize, usize)> = a
            .target
            .leaves()
            .into_iter()
            .filter_map(|s| if let MSel::Key(s, k) = s { Some((*s, *k)) } else { None })
            .collect();
        exp_keys.sort();
        exp_keys.dedup();
        if no_ann && a.keys_meta != exp_keys {
            sc.add(Fam::Index, "forward.keys_as_metadata", kind, format!("annotation {}: {:?} vs {:?}", a.handle, a.keys_meta, exp_keys));
        }
        let mut exp_data: Vec<(usize, usize)> = a
            .target
            .leaves()
            .into_iter()
            .filter_map(|s| if let MSel::Data(s, k) = s { Some((*s, *k)) } else { None })
            .collect();
        exp_data.sort();
        exp_data.dedup();
        if no_ann && a.data_meta != exp_data {
            sc.add(Fam::Index, "forward.data_as_metadata", kind, format!("annotation {}: {:?} vs {:?}", a.handle, a.data_meta, exp_data));
        }
        if a.hl_data != a.raw_data {
            sc.add(Fam::Index, "forward.data", kind, format!("annotation {}: data() = {:?} but raw_data = {:?}", a.handle, a.hl_data, a.raw_data));
        }
    }

    // ---- 6. reverse lookups vs brute force over the forward references
    let brute = Brute { obs };
    let rev = |sc: &mut StepCheck, facet: &str, what: String, expected: Vec<usize>, got: &[usize], _dedup: bool| {
        // `expected` has one entry per reference; the statement wants every annotation once, in
        // chronological (= handle) order
        sc.checks += 1;
        let mut exp_multi = expected.clone();
        exp_multi.sort();
        let mut exp_once = exp_multi.clone();
        exp_once.dedup();
        if got == exp_once.as_slice() {
            return;
        }
        let mut g = got.to_vec();
        g.sort();
        let class = if g == exp_multi && exp_multi != exp_once {
            "twice-for-double-reference"
        } else {
            diff_lists(&exp_once, got).unwrap_or("?")
        };
        sc.add(Fam::Index, facet, class, format!("{}: got {:?}, forward references imply {:?}", what, got, exp_once));
    };
    for r in &obs.resources {
        let exp = brute.anns_with(|a| if a.target.refs_resource(r.handle) && leaves_count(&a.target, |s| matches!(s, MSel::Text{res,..} if *res==r.handle) || matches!(s, MSel::Ann{text:Some((res,..)),..} if *res==r.handle)) > 0 { 1 } else { 0 });
        rev(sc, "api.resource.annotations", format!("resource {}", r.handle), exp, &r.anns_text, true);
        let exp = brute.anns_with(|a| leaves_count(&a.target, |s| matches!(s, MSel::Res(x) if *x == r.handle)));
        rev(sc, "api.resource.annotations_as_metadata", format!("resource {}", r.handle), exp, &r.anns_meta, false);
        // every referenced text selection must be enumerable and carry exactly its annotations
        let mut referenced: BTreeMap<(usize, usize), Vec<usize>> = BTreeMap::new();
        for a in &obs.anns {
            for (res, b, e) in a.target.texts() {
                if res == r.handle {
                    referenced.entry((b, e)).or_default().push(a.handle);
                }
            }
        }
        for t in &r.tsels {
            let exp = referenced.get(&(t.begin, t.end)).cloned().unwrap_or_default();
            rev(sc, "api.textselection.annotations", format!("text selection {}:{}-{}", r.handle, t.begin, t.end), exp.clone(), &t.anns, false);
            sc.checks += 1;
            if t.anns_len != t.anns.len() {
                sc.add(Fam::Index, "api.textselection.annotations_len", "len", format!("text selection {}:{}-{} annotations_len()={} but annotations() yields {}", r.handle, t.begin, t.end, t.anns_len, t.anns.len()));
            }
        }
        for ((b, e), anns) in &referenced {
            sc.checks += 1;
            let n = r.tsels.iter().filter(|t| t.begin == *b && t.end == *e).count();
            if n != 1 {
                let class = if n == 0 {
                    let len = r.text.chars().count();
                    if *b == *e && *e == len { "not-enumerated|zero-width-at-end" } else { "not-enumerated" }
                } else {
                    "enumerated-twice"
                };
                sc.add(Fam::Index, "api.resource.textselections", class, format!("text selection {}:{}-{} (annotations {:?}) is enumerated {} times by textselections()", r.handle, b, e, anns, n));
            }
            // direct lookup by offset
            if let Some(res) = store.resource(TextResourceHandle::new(r.handle)) {
                match catch(|| res.textselection(&Offset::simple(*b, *e)).map(|t| (t.annotations().map(|a| a.handle().as_usize()).collect::<Vec<_>>(), t.annotations_len()))) {
                    Ok(Ok((got, len))) => {
                        rev(sc, "api.textselection.annotations", format!("text selection {}:{}-{} (by offset)", r.handle, b, e), anns.clone(), &got, false);
                        if len != got.len() {
                            sc.add(Fam::Index, "api.textselection.annotations_len", "len", format!("text selection {}:{}-{}: annotations_len()={} vs {}", r.handle, b, e, len, got.len()));
                        }
                    }
                    Ok(Err(e2)) => sc.add(Fam::Index, "api.textselection.lookup", "err", format!("textselection({},{}) on resource {} failed: {}", b, e, r.handle, e2)),
                    Err(p) => sc.add(Fam::Index, "api.textselection.lookup", p.signature(), format!("textselection({},{}) panicked: {}", b, e, p.msg)),
                }
            }
        }
    }
    for s in &obs.sets {
        let exp = brute.anns_with(|a| leaves_count(&a.target, |x| matches!(x, MSel::Set(h) if *h == s.handle)));
        rev(sc, "api.dataset.annotations", format!("dataset {}", s.handle), exp, &s.anns_meta, false);
        for d in &s.data {
            let exp = brute.anns_with(|a| a.raw_data.iter().filter(|x| **x == (s.handle, d.handle)).count());
            rev(sc, "api.data.annotations", format!("data ({},{})", s.handle, d.handle), exp, &d.anns, false);
            sc.checks += 1;
            if d.anns_len != d.anns.len() {
                sc.add(Fam::Index, "api.data.annotations_len", "len", format!("data ({},{}): annotations_len()={} but annotations() yields {}", s.handle, d.handle, d.anns_len, d.anns.len()));
            }
            let exp = brute.anns_with(|a| leaves_count(&a.target, |x| matches!(x, MSel::Data(h, dd) if *h == s.handle && *dd == d.handle)));
            rev(sc, "api.data.annotations_as_metadata", format!("data ({},{})", s.handle, d.handle), exp, &d.anns_meta, false);
        }
        for k in &s.keys {
            let exp_data: Vec<usize> = s.data.iter().filter(|d| d.key == k.handle).map(|d| d.handle).collect();
            sc.checks += 1;
            if let Some(class) = diff_lists(&exp_data, &k.data) {
                sc.add(Fam::Index, "api.key.data", class, format!("key ({},{}) data() = {:?}, the data items carrying this key are {:?}", s.handle, k.handle, k.data, exp_data));
            }
            let exp = brute.anns_with(|a| if a.raw_data.iter().any(|(ds, dd)| *ds == s.handle && exp_data.contains(dd)) { 1 } else { 0 });
            rev(sc, "api.key.annotations", format!("key ({},{})", s.handle, k.handle), exp.clone(), &k.anns, true);
            sc.checks += 1;
            let mut e = exp;
            e.sort();
            e.dedup();
            if k.anns_count != e.len() {
                sc.add(Fam::Index, "api.key.annotations_count", "count", format!("key ({},{}): annotations_count()={} expected {}", s.handle, k.handle, k.anns_count, e.len()));
            }
            let exp = brute.anns_with(|a| leaves_count(&a.target, |x| matches!(x, MSel::Key(h, kk) if *h == s.handle && *kk == k.handle)));
            rev(sc, "api.key.annotations_as_metadata", format!("key ({},{})", s.handle, k.handle), exp, &k.anns_meta, false);
        }
    }
    for a in &obs.anns {
        let exp = brute.anns_with(|b| leaves_count(&b.target, |x| matches!(x, MSel::Ann{ann,..} if *ann == a.handle)));
        rev(sc, "api.annotation.annotations", format!("annotation {}", a.handle), exp.clone(), &a.referenced_by, false);
        rev(sc, "api.annotation.annotations_handles", format!("annotation {}", a.handle), exp, &a.referenced_by_handles, false);
    }

    // ---- 7. raw index dump
    let dump = store.verif_dump();
    let live_ann: Vec<usize> = obs.anns.iter().map(|a| a.handle).collect();
    let mut exp_dda: Vec<(usize, usize, usize)> = vec![];
    let mut exp_text: Vec<(usize, usize, usize, usize)> = vec![];
    let mut exp_resmeta = vec![];
    let mut exp_setmeta = vec![];
    let mut exp_annann = vec![];
    let mut exp_keymeta = vec![];
    let mut exp_datameta = vec![];
    for a in &obs.anns {
        for (s, d) in &a.raw_data {
            exp_dda.push((*s, *d, a.handle));
        }
        for leaf in a.target.leaves() {
            match leaf {
                MSel::Text { res, begin, end, .. } => exp_text.push((*res, *begin, *end, a.handle)),
                MSel::Ann { ann, text } => {
                    exp_annann.push((*ann, a.handle));
                    if let Some((res, b, e, _)) = text {
                        exp_text.push((*res, *b, *e, a.handle));
                    }
                }
                MSel::Res(r) => exp_resmeta.push((*r, a.handle)),
                MSel::Set(s) => exp_setmeta.push((*s, a.handle)),
                MSel::Key(s, k) => exp_keymeta.push((*s, *k, a.handle)),
                MSel::Data(s, d) => exp_datameta.push((*s, *d, a.handle)),
                _ => {}
            }
        }
    }
    // translate text selection handles of the dump to ranges
    let mut got_text: Vec<(usize, usize, usize, usize)> = vec![];
    let mut bad_tsel = None;
    for (r, t, a) in &dump.textrelationmap {
        match store
            .resource(TextResourceHandle::new(*r))
            .and_then(|res| res.textselection_by_handle(TextSelectionHandle::new(*t)).ok())
        {
            Some(ts) => got_text.push((*r, ts.begin(), ts.end(), *a)),
            None => bad_tsel = Some((*r, *t, *a)),
        }
    }
    if let Some(b) = bad_tsel {
        sc.add(Fam::Index, "raw.textrelationmap", "stale-unresolvable", format!("entry {:?} names a resource or text selection that does not exist", b));
    }
    fn cmp_raw<T: Ord + Clone + std::fmt::Debug>(sc: &mut StepCheck, name: &str, mut expected: Vec<T>, got: Vec<T>, chrono_last: bool) {
        sc.checks += 1;
        let _ = chrono_last;
        let mut g = got.clone();
        expected.sort();
        expected.dedup(); // each (target, annotation) pair once, however often the annotation names the target
        g.sort();
        if expected != g {
            let stale = g.iter().any(|x| !expected.contains(x));
            let missing = expected.iter().any(|x| !g.contains(x));
            let class = match (stale, missing) {
                (true, true) => "stale+missing",
                (true, false) => "stale",
                (false, true) => "missing",
                _ => "multiplicity",
            };
            let extra: Vec<_> = g.iter().filter(|x| !expected.contains(x)).cloned().collect();
            let lack: Vec<_> = expected.iter().filter(|x| !g.contains(x)).cloned().collect();
            sc.add(Fam::Index, &format!("raw.{}", name), class, format!("index {}: unexpected entries {:?}, missing entries {:?}", name, extra, lack));
        } else if got != g {
            sc.add(Fam::Index, &format!("raw.{}", name), "order", format!("index {} is not in sorted (chronological) order: {:?}", name, got));
        }
    }
    // index_totalcount() must report the sizes of exactly these maps
    {
        let uniq = |v: &Vec<(usize, usize, usize)>| {
            let mut x = v.clone();
            x.sort();
            x.dedup();
            x.len()
        };
        let uniq2 = |v: &Vec<(usize, usize)>| {
            let mut x = v.clone();
            x.sort();
            x.dedup();
            x.len()
        };
        let mut t = exp_text.clone();
        t.sort();
        t.dedup();
        let expected = vec![uniq(&exp_dda), t.len(), uniq2(&exp_resmeta), uniq2(&exp_setmeta), uniq2(&exp_annann), 0, uniq(&exp_keymeta), uniq(&exp_datameta)];
        sc.checks += 1;
        if obs.index_totalcount != expected {
            sc.add(Fam::Index, "api.index_totalcount", "counts", format!("index_totalcount() = {:?}, the forward references imply {:?}", obs.index_totalcount, expected));
        }
    }
    cmp_raw(sc, "dataset_data_annotation_map", exp_dda, dump.dataset_data_annotation_map.clone(), true);
    // the text relation map is keyed by text selection handle, which is not textual order: compare as multisets only
    {
        sc.checks += 1;
        let mut e = exp_text.clone();
        let mut g = got_text.clone();
        e.sort();
        e.dedup();
        g.sort();
        if e != g {
            let extra: Vec<_> = g.iter().filter(|x| !e.contains(x)).cloned().collect();
            let lack: Vec<_> = e.iter().filter(|x| !g.contains(x)).cloned().collect();
            let class = match (!extra.is_empty(), !lack.is_empty()) {
                (true, true) => "stale+missing",
                (true, false) => "stale",
                (false, true) => "missing",
                _ => "multiplicity",
            };
            sc.add(Fam::Index, "raw.textrelationmap", class, format!("unexpected (res,begin,end,annotation) {:?}, missing {:?}", extra, lack));
        }
    }
    cmp_raw(sc, "resource_annotation_metamap", exp_resmeta, dump.resource_annotation_metamap.clone(), true);
    cmp_raw(sc, "dataset_annotation_metamap", exp_setmeta, dump.dataset_annotation_metamap.clone(), true);
    cmp_raw(sc, "annotation_annotation_map", exp_annann, dump.annotation_annotation_map.clone(), true);
    cmp_raw(sc, "key_annotation_metamap", exp_keymeta, dump.key_annotation_metamap.clone(), true);
    cmp_raw(sc, "data_annotation_metamap", exp_datameta, dump.data_annotation_metamap.clone(), true);
    let _ = live_ann;
    // id maps
    let exp_ids: Vec<(String, usize)> = {
        let mut v: Vec<_> = obs.anns.iter().filter_map(|a| a.id.clone().map(|i| (i, a.handle))).collect();
        v.sort();
        v
    };
    cmp_raw(sc, "annotation_idmap", exp_ids, dump.annotation_idmap.clone(), false);
    let exp_ids: Vec<(String, usize)> = {
        let mut v: Vec<_> = obs.resources.iter().filter_map(|a| a.id.clone().map(|i| (i, a.handle))).collect();
        v.sort();
        v
    };
    cmp_raw(sc, "resource_idmap", exp_ids, dump.resource_idmap.clone(), false);
    let exp_ids: Vec<(String, usize)> = {
        let mut v: Vec<_> = obs.sets.iter().filter_map(|a| a.id.clone().map(|i| (i, a.handle))).collect();
        v.sort();
        v
    };
    cmp_raw(sc, "dataset_idmap", exp_ids, dump.dataset_idmap.clone(), false);
    for s in &obs.sets {
        if let Some(ds) = store.dataset(AnnotationDataSetHandle::new(s.handle)) {
            let (kid, did, kd) = ds.as_ref().verif_dump();
            let mut e: Vec<_> = s.keys.iter().filter_map(|k| k.id.clone().map(|i| (i, k.handle))).collect();
            e.sort();
            cmp_raw(sc, "key_idmap", e, kid, false);
            let mut e: Vec<_> = s.data.iter().filter_map(|k| k.id.clone().map(|i| (i, k.handle))).collect();
            e.sort();
            cmp_raw(sc, "data_idmap", e, did, false);
            let e: Vec<(usize, usize)> = {
                let mut v: Vec<_> = s.data.iter().map(|d| (d.key, d.handle)).collect();
                v.sort();
                v
            };
            cmp_raw(sc, "key_data_map", e, kd, true);
        }
    }
    // position index of every resource: entries == the text selections of the resource, byte positions exact
    for r in &obs.resources {
        if let Some(res) = store.resource(TextResourceHandle::new(r.handle)) {
            let low: &TextResource = res.as_ref();
            let mut sels: Vec<(usize, usize, usize)> = low
                .textselections_unsorted()
                .map(|t| (t.begin(), t.end(), t.handle().map(|h| h.as_usize()).unwrap_or(usize::MAX)))
                .collect();
            sels.sort();
            let mut from_b2e = vec![];
            let mut from_e2b = vec![];
            let bytepos: Vec<usize> = {
                let mut v: Vec<usize> = r.text.char_indices().map(|(i, _)| i).collect();
                v.push(r.text.len());
                v
            };
            for (pos, item) in low.positionindex_iter() {
                sc.checks += 1;
                if bytepos.get(*pos).copied() != Some(item.bytepos()) {
                    sc.add(Fam::Index, "raw.positionindex", "bytepos", format!("resource {} position {} has byte position {}, expected {:?}", r.handle, pos, item.bytepos(), bytepos.get(*pos)));
                }
                for (end, h) in item.iter_begin2end() {
                    from_b2e.push((*pos, *end, h.as_usize()));
                }
                for (begin, h) in item.iter_end2begin() {
                    from_e2b.push((*begin, *pos, h.as_usize()));
                }
            }
            from_b2e.sort();
            from_e2b.sort();
            sc.checks += 2;
            if from_b2e != sels {
                sc.add(Fam::Index, "raw.positionindex", "begin2end", format!("resource {}: begin->end entries {:?} but the text selections are {:?}", r.handle, from_b2e, sels));
            }
            if from_e2b != sels {
                sc.add(Fam::Index, "raw.positionindex", "end2begin", format!("resource {}: end->begin entries {:?} but the text selections are {:?}", r.handle, from_e2b, sels));
            }
            // no two text selections with the same range
            let mut ranges: Vec<(usize, usize)> = sels.iter().map(|s| (s.0, s.1)).collect();
            let n = ranges.len();
            ranges.dedup();
            if ranges.len() != n {
                sc.add(Fam::Index, "raw.textselections", "duplicate-range", format!("resource {} stores the same range twice: {:?}", r.handle, sels));
            }
        }
    }
    let _ = model;
    check_plural(store, sc);
}

/// The iterator-level ("plural") maps are documented as the sorted, duplicate-free union of the item-level ones
/// (`AnnotationIterator::annotations / annotations_in_targets / data / keys / resources / ...`, `DataIterator::annotations
/// / annotations_as_metadata / keys`, `KeyIterator::annotations / annotations_as_metadata`, `ResourcesIterator::annotations /
/// annotations_as_metadata`, `TextSelectionIterator::annotations`). Differential check: each plural map over all items
/// (in store order and reversed) against the union of the corresponding item-level map, which the rest of this battery
/// validates against the forward references.
fn check_plural(store: &AnnotationStore, sc: &mut StepCheck) {
    type K = (usize, usize);
    fn a_key(a: &ResultItem<Annotation>) -> K {
        (0, a.handle().as_usize())
    }
    fn r_key(r: &ResultItem<TextResource>) -> K {
        (0, r.handle().as_usize())
    }
    fn d_key(d: &ResultItem<AnnotationData>) -> K {
        (d.set().handle().as_usize(), d.handle().as_usize())
    }
    fn k_key(k: &ResultItem<DataKey>) -> K {
        (k.set().handle().as_usize(), k.handle().as_usize())
    }
    let mut cmp = |name: &str, order: &str, got: Vec<K>, mut expected: Vec<K>, strict_order: bool| {
        sc.checks += 1;
        expected.sort();
        expected.dedup();
        let mut g = got.clone();
        g.sort();
        let dup = g.windows(2).any(|w| w[0] == w[1]);
        g.dedup();
        if dup {
            sc.add(Fam::Index, &format!("plural.{}", name), format!("duplicate|{}", order), format!("{} over all items ({}) returned an item twice: {:?}", name, order, got));
        } else if g != expected {
            sc.add(Fam::Index, &format!("plural.{}", name), format!("content|{}", order), format!("{} over all items ({}) returned {:?}, the union of the item-level results is {:?}", name, order, got, expected));
        } else if strict_order && got != expected {
            sc.add(Fam::Index, &format!("plural.{}", name), format!("order|{}", order), format!("{} over all items ({}) returned {:?}, documented as sorted chronologically: {:?}", name, order, got, expected));
        } else if !strict_order {
            // per holding set the order must still be ascending
            let mut last: std::collections::BTreeMap<usize, usize> = Default::default();
            for (s_, h) in &got {
                if let Some(prev) = last.get(s_) {
                    if prev > h {
                        sc.add(Fam::Index, &format!("plural.{}", name), format!("order|{}", order), format!("{} over all items ({}) returned {:?}, not chronological within set {}", name, order, got, s_));
                        break;
                    }
                }
                last.insert(*s_, *h);
            }
        }
    };
    for order in ["store-order", "reversed"] {
        let rev = order == "reversed";
        let anns = || -> Vec<ResultItem<Annotation>> {
            let mut v: Vec<_> = store.annotations().collect();
            if rev {
                v.reverse();
            }
            v
        };
        let data = || -> Vec<ResultItem<AnnotationData>> {
            let mut v: Vec<_> = store.datasets().flat_map(|s| s.data()).collect();
            if rev {
                v.reverse();
            }
            v
        };
        let keys = || -> Vec<ResultItem<DataKey>> {
            let mut v: Vec<_> = store.datasets().flat_map(|s| s.keys()).collect();
            if rev {
                v.reverse();
            }
            v
        };
        let ress = || -> Vec<ResultItem<TextResource>> {
            let mut v: Vec<_> = store.resources().collect();
            if rev {
                v.reverse();
            }
            v
        };
        // ---- from annotations
        cmp("annotations.annotations", order, anns().into_iter().annotations().map(|a| a_key(&a)).collect(), anns().iter().flat_map(|a| a.annotations().map(|x| a_key(&x)).collect::<Vec<_>>()).collect(), true);
        cmp(
            "annotations.annotations_in_targets",
            order,
            anns().into_iter().annotations_in_targets(AnnotationDepth::One).map(|a| a_key(&a)).collect(),
            anns().iter().flat_map(|a| a.annotations_in_targets(AnnotationDepth::One).map(|x| a_key(&x)).collect::<Vec<_>>()).collect(),
            true,
        );
        cmp("annotations.data", order, anns().into_iter().data().map(|d| d_key(&d)).collect(), anns().iter().flat_map(|a| a.data().map(|x| d_key(&x)).collect::<Vec<_>>()).collect(), false);
        cmp("annotations.keys", order, anns().into_iter().keys().map(|k| k_key(&k)).collect(), anns().iter().flat_map(|a| a.keys().map(|x| k_key(&x)).collect::<Vec<_>>()).collect(), false);
        cmp("annotations.resources", order, anns().into_iter().resources().map(|r| r_key(&r)).collect(), anns().iter().flat_map(|a| a.resources().map(|x| r_key(&x)).collect::<Vec<_>>()).collect(), true);
        cmp(
            "annotations.resources_as_metadata",
            order,
            anns().into_iter().resources_as_metadata().map(|r| r_key(&r)).collect(),
            anns().iter().flat_map(|a| a.resources_as_metadata().map(|x| r_key(&x)).collect::<Vec<_>>()).collect(),
            true,
        );
        cmp(
            "annotations.data_as_metadata",
            order,
            anns().into_iter().data_as_metadata().map(|d| d_key(&d)).collect(),
            anns().iter().flat_map(|a| a.data_as_metadata().map(|x| d_key(&x)).collect::<Vec<_>>()).collect(),
            false,
        );
        cmp(
            "annotations.keys_as_metadata",
            order,
            anns().into_iter().keys_as_metadata().map(|k| k_key(&k)).collect(),
            anns().iter().flat_map(|a| a.keys_as_metadata().map(|x| k_key(&x)).collect::<Vec<_>>()).collect(),
            false,
        );
        // ---- from data
        cmp("data.annotations", order, data().into_iter().annotations().map(|a| a_key(&a)).collect(), data().iter().flat_map(|d| d.annotations().map(|x| a_key(&x)).collect::<Vec<_>>()).collect(), true);
        cmp(
            "data.annotations_as_metadata",
            order,
            data().into_iter().annotations_as_metadata().map(|a| a_key(&a)).collect(),
            data().iter().flat_map(|d| d.annotations_as_metadata().map(|x| a_key(&x)).collect::<Vec<_>>()).collect(),
            true,
        );
        cmp("data.keys", order, data().into_iter().keys().map(|k| k_key(&k)).collect(), data().iter().map(|d| k_key(&d.key())).collect(), false);
        // ---- from keys
        cmp("keys.annotations", order, keys().into_iter().annotations().map(|a| a_key(&a)).collect(), keys().iter().flat_map(|k| k.annotations().map(|x| a_key(&x)).collect::<Vec<_>>()).collect(), true);
        cmp(
            "keys.annotations_as_metadata",
            order,
            keys().into_iter().annotations_as_metadata().map(|a| a_key(&a)).collect(),
            keys().iter().flat_map(|k| k.annotations_as_metadata().map(|x| a_key(&x)).collect::<Vec<_>>()).collect(),
            true,
        );
        // ---- from resources
        cmp("resources.annotations", order, ress().into_iter().annotations().map(|a| a_key(&a)).collect(), ress().iter().flat_map(|r| r.annotations().map(|x| a_key(&x)).collect::<Vec<_>>()).collect(), true);
        cmp(
            "resources.annotations_as_metadata",
            order,
            ress().into_iter().annotations_as_metadata().map(|a| a_key(&a)).collect(),
            ress().iter().flat_map(|r| r.annotations_as_metadata().map(|x| a_key(&x)).collect::<Vec<_>>()).collect(),
            true,
        );
        // ---- from text selections
        let tsels = || -> Vec<ResultTextSelection> {
            let mut v: Vec<_> = store.resources().flat_map(|r| r.textselections().collect::<Vec<_>>()).collect();
            if rev {
                v.reverse();
            }
            v
        };
        cmp("textselections.annotations", order, tsels().into_iter().annotations().map(|a| a_key(&a)).collect(), tsels().iter().flat_map(|t| t.annotations().map(|x| a_key(&x)).collect::<Vec<_>>()).collect(), true);
    }
}
