//! Shared engine: seeded proptest runners sharded over threads, panic capture, known-finding
//! matching, shrinking to a replay file, evidence writing. See DESIGN.md §2 and §4.

use proptest::strategy::{BoxedStrategy, Strategy};
use proptest::test_runner::{Config, RngAlgorithm, TestCaseError, TestError, TestRng, TestRunner};
use serde::de::DeserializeOwned;
use serde::Serialize;
use std::cell::RefCell;
use std::collections::hash_map::DefaultHasher;
use std::collections::{BTreeMap, HashSet};
use std::fmt::Debug;
use std::hash::{Hash, Hasher};
use std::panic::{catch_unwind, AssertUnwindSafe};
use std::path::{Path, PathBuf};
use std::sync::atomic::{AtomicBool, AtomicU64, Ordering};
use std::sync::{Arc, Mutex};
use std::time::Instant;

pub const SHARDS: u64 = 16;
pub const DEFAULT_SEED: u64 = 20260926;

#[derive(Clone, Copy, PartialEq, Eq, Debug)]
pub enum Tier {
    Quick,
    Thorough,
}

impl Tier {
    pub fn name(&self) -> &'static str {
        match self {
            Tier::Quick => "quick",
            Tier::Thorough => "thorough",
        }
    }
    /// pick by tier
    pub fn pick<T>(&self, quick: T, thorough: T) -> T {
        match self {
            Tier::Quick => quick,
            Tier::Thorough => thorough,
        }
    }
}

#[derive(Clone, Debug, Serialize, serde::Deserialize, PartialEq, Eq)]
pub struct Failure {
    pub facet: String,
    pub signature: String,
    pub detail: String,
}

#[derive(Default, Debug)]
pub struct Outcome {
    pub labels: Vec<String>,
    pub nontrivial: bool,
    pub failures: Vec<Failure>,
    pub skip: Option<String>,
    /// number of elementary comparisons made by this case (for evidence)
    pub checks: u64,
    /// number of comparisons that were "don't care" (three-valued oracle)
    pub dontcare: u64,
}

impl Outcome {
    pub fn new() -> Self {
        Self::default()
    }
    pub fn label(&mut self, l: &str) {
        if !self.labels.iter().any(|x| x == l) {
            self.labels.push(l.to_string());
        }
    }
    pub fn fail(&mut self, facet: &str, signature: impl Into<String>, detail: impl Into<String>) {
        let signature: String = signature.into();
        let signature = signature.replace(' ', "_");
        // keep one failure per (facet, signature)
        if self
            .failures
            .iter()
            .any(|f| f.facet == facet && f.signature == signature)
        {
            return;
        }
        let mut detail: String = detail.into();
        if detail.len() > 2000 {
            let mut cut = 2000;
            while !detail.is_char_boundary(cut) {
                cut -= 1;
            }
            detail.truncate(cut);
            detail.push_str("…");
        }
        self.failures.push(Failure {
            facet: facet.to_string(),
            signature,
            detail,
        });
    }
    pub fn skip(&mut self, reason: &str) {
        self.skip = Some(reason.to_string());
    }
    pub fn merge(&mut self, other: Outcome) {
        for l in other.labels {
            self.label(&l);
        }
        self.nontrivial |= other.nontrivial;
        for f in other.failures {
            self.fail(&f.facet, f.signature, f.detail);
        }
        if self.skip.is_none() {
            self.skip = other.skip;
        }
        self.checks += other.checks;
        self.dontcare += other.dontcare;
    }
}

pub trait Property: Sync + Send + 'static {
    type Case: Serialize + DeserializeOwned + Debug + Clone + Send + Sync + 'static;
    fn id(&self) -> &'static str;
    /// how cases are generated and what makes one non-trivial / distinct
    fn rule(&self) -> String;
    fn assumptions(&self) -> Vec<String> {
        vec![]
    }
    /// number of random cases for this tier
    fn cases(&self, tier: Tier) -> u64;
    fn strategy(&self, tier: Tier) -> BoxedStrategy<Self::Case>;
    /// exhaustively enumerated cases (run before the random ones)
    fn enumerate(&self, _tier: Tier) -> Vec<Self::Case> {
        vec![]
    }
    /// true when `enumerate` covers a finite space completely (reported in evidence)
    fn exhaustive_note(&self, _tier: Tier) -> Option<String> {
        None
    }
    fn run(&self, case: &Self::Case) -> Outcome;
    /// generator health: return complaints (=> exit 2) given label counts and number of evaluations
    fn health(&self, _labels: &BTreeMap<String, u64>, _evals: u64) -> Vec<String> {
        vec![]
    }
    /// extra coverage keys
    fn extra_coverage(&self) -> serde_json::Value {
        serde_json::Value::Null
    }
}

// ------------------------------------------------------------------------------------------
// panic capture

thread_local! {
    static LAST_PANIC: RefCell<Option<(String, String)>> = RefCell::new(None);
    static QUIET: RefCell<bool> = RefCell::new(false);
}

pub fn install_panic_hook() {
    let default = std::panic::take_hook();
    std::panic::set_hook(Box::new(move |info| {
        let file = info
            .location()
            .map(|l| l.file().to_string())
            .unwrap_or_else(|| "?".into());
        let msg = if let Some(s) = info.payload().downcast_ref::<&str>() {
            s.to_string()
        } else if let Some(s) = info.payload().downcast_ref::<String>() {
            s.clone()
        } else {
            "?".to_string()
        };
        let line = info.location().map(|l| l.line()).unwrap_or(0);
        LAST_PANIC.with(|p| *p.borrow_mut() = Some((format!("{}:{}", file, line), msg)));
        let quiet = QUIET.with(|q| *q.borrow());
        if !quiet || std::env::var("VERIF_VERBOSE").is_ok() {
            default(info);
        }
    }));
}

#[derive(Debug, Clone)]
pub struct PanicInfo {
    pub file: String,
    pub line: String,
    pub msg: String,
}

impl PanicInfo {
    /// canonical signature: file (without line) and normalised message
    pub fn signature(&self) -> String {
        format!("panic:{}:{}", self.file, normalise_msg(&self.msg))
    }
    pub fn in_stam(&self) -> bool {
        !self.file.contains("harness/src") && !self.file.starts_with("src/props") && !self.file.starts_with("src/bin")
            && !self.file.starts_with("src/engine") && !self.file.starts_with("src/model") && !self.file.starts_with("src/gen")
            && !self.file.starts_with("src/observe")
    }
}

pub fn normalise_msg(msg: &str) -> String {
    let mut out = String::new();
    let mut in_quote = false;
    let mut last_digit = false;
    for c in msg.chars() {
        if c == '"' || c == '`' {
            if in_quote {
                out.push('…');
            }
            in_quote = !in_quote;
            out.push('\'');
            last_digit = false;
            continue;
        }
        if in_quote {
            continue;
        }
        if c.is_ascii_digit() {
            if !last_digit {
                out.push('N');
            }
            last_digit = true;
            continue;
        }
        last_digit = false;
        if c.is_whitespace() {
            out.push('_');
        } else if c == '|' {
            out.push('/');
        } else {
            out.push(c);
        }
    }
    if out.len() > 120 {
        let mut cut = 120;
        while !out.is_char_boundary(cut) {
            cut -= 1;
        }
        out.truncate(cut);
    }
    out
}

fn short_file(file: &str) -> (String, String) {
    // "<path>/src/x.rs:123" -> ("src/x.rs", "123"); registry crates keep crate name
    let (path, line) = match file.rfind(':') {
        Some(i) => (&file[..i], &file[i + 1..]),
        None => (file, ""),
    };
    let short = if let Some(i) = path.find("/registry/src/") {
        let rest = &path[i + 14..];
        // skip index dir
        match rest.find('/') {
            Some(j) => rest[j + 1..].to_string(),
            None => rest.to_string(),
        }
    } else if let Some(i) = path.find("/repo/") {
        path[i + 6..].to_string()
    } else if let Some(i) = path.rfind("/src/") {
        // scratch copies of the repo: keep "src/..."
        path[i + 1..].to_string()
    } else {
        path.to_string()
    };
    (short, line.to_string())
}

/// Run `f`, turning a panic into `Err(PanicInfo)`. Quiet (no backtrace spam).
pub fn catch<T>(f: impl FnOnce() -> T) -> Result<T, PanicInfo> {
    let prev = QUIET.with(|q| q.replace(true));
    LAST_PANIC.with(|p| *p.borrow_mut() = None);
    let r = catch_unwind(AssertUnwindSafe(f));
    QUIET.with(|q| *q.borrow_mut() = prev);
    match r {
        Ok(v) => Ok(v),
        Err(_) => {
            let (file, msg) = LAST_PANIC
                .with(|p| p.borrow_mut().take())
                .unwrap_or(("?".into(), "?".into()));
            let (file, line) = short_file(&file);
            Err(PanicInfo { file, line, msg })
        }
    }
}

/// Run a library call that must not panic; a panic becomes a failure under `facet`.
pub fn guard<T>(out: &mut Outcome, facet: &str, what: &str, f: impl FnOnce() -> T) -> Option<T> {
    match catch(f) {
        Ok(v) => Some(v),
        Err(p) => {
            out.fail(
                facet,
                p.signature(),
                format!("{} panicked at {}:{}: {}", what, p.file, p.line, p.msg),
            );
            None
        }
    }
}

// ------------------------------------------------------------------------------------------
// known findings

#[derive(Clone, Debug)]
pub struct Finding {
    pub fixed: bool,
    pub property: String,
    pub what: String,
    pub facet: String,
    pub signature: String,
    pub witness: Option<String>,
}

impl Finding {
    pub fn matches(&self, f: &Failure) -> bool {
        (self.facet == "*" || self.facet == f.facet) && glob(&self.signature, &f.signature)
    }
}

fn glob(pat: &str, s: &str) -> bool {
    if let Some(prefix) = pat.strip_suffix('*') {
        s.starts_with(prefix)
    } else {
        pat == s
    }
}

pub fn verif_root() -> PathBuf {
    if let Ok(r) = std::env::var("VERIF_ROOT") {
        return PathBuf::from(r);
    }
    // harness lives in <root>/harness
    let exe = std::env::current_exe().ok();
    if let Some(exe) = exe {
        // <root>/harness/target/release/check
        let mut p = exe.clone();
        for _ in 0..4 {
            p.pop();
        }
        if p.join("properties.jsonl").exists() {
            return p;
        }
    }
    PathBuf::from("/verif")
}

pub fn load_findings(property: &str) -> Vec<Finding> {
    let path = verif_root().join("known_findings.txt");
    let mut text = std::fs::read_to_string(&path).unwrap_or_default();
    // optional per-property fragments (used while a check is being developed; merged into the main file later)
    if let Ok(rd) = std::fs::read_dir(verif_root().join("known_findings.d")) {
        let mut files: Vec<_> = rd.filter_map(|e| e.ok()).map(|e| e.path()).collect();
        files.sort();
        for f in files {
            if f.extension().map(|e| e == "txt").unwrap_or(false) {
                text.push('\n');
                text.push_str(&std::fs::read_to_string(&f).unwrap_or_default());
            }
        }
    }
    let mut out = vec![];
    for line in text.lines() {
        let line = line.trim();
        let (fixed, rest) = if let Some(r) = line.strip_prefix("known:") {
            (false, r.trim())
        } else if let Some(r) = line.strip_prefix("fixed:") {
            (true, r.trim())
        } else {
            continue;
        };
        let (head, tail) = match rest.split_once(" | ") {
            Some(x) => x,
            None => (rest, ""),
        };
        let mut words = head.splitn(2, ' ');
        let prop = words.next().unwrap_or("");
        let what = words.next().unwrap_or("").to_string();
        let prop = prop.strip_prefix("property=").unwrap_or(prop);
        if prop != property {
            continue;
        }
        let mut facet = "*".to_string();
        let mut signature = String::new();
        let mut witness = None;
        for tok in tail.split_whitespace() {
            if let Some(v) = tok.strip_prefix("facet=") {
                facet = v.to_string();
            } else if let Some(v) = tok.strip_prefix("signature=") {
                signature = v.to_string();
            } else if let Some(v) = tok.strip_prefix("witness=") {
                witness = Some(v.to_string());
            }
        }
        out.push(Finding {
            fixed,
            property: prop.to_string(),
            what,
            facet,
            signature,
            witness,
        });
    }
    out
}

// ------------------------------------------------------------------------------------------
// running

#[derive(Clone, Debug)]
pub struct Opts {
    pub tier: Tier,
    pub seed: u64,
    pub replay: Option<PathBuf>,
    pub cases_override: Option<u64>,
    /// evaluation aid (mutation sweeps): run this fraction of the tier's random cases; never set by registered commands
    pub frac: Option<f64>,
    pub strict: bool,
    pub no_evidence: bool,
    pub threads: usize,
}

#[derive(Serialize, serde::Deserialize)]
struct ReplayFile {
    property: String,
    #[serde(default)]
    seed: u64,
    case: serde_json::Value,
    #[serde(default)]
    failures: Vec<Failure>,
}

fn splitmix(mut x: u64) -> u64 {
    x = x.wrapping_add(0x9E3779B97F4A7C15);
    let mut z = x;
    z = (z ^ (z >> 30)).wrapping_mul(0xBF58476D1CE4E5B9);
    z = (z ^ (z >> 27)).wrapping_mul(0x94D049BB133111EB);
    z ^ (z >> 31)
}

fn shard_seed(seed: u64, id: &str, shard: u64) -> [u8; 32] {
    let mut h = DefaultHasher::new();
    id.hash(&mut h);
    let idh = h.finish();
    let mut s = splitmix(seed ^ splitmix(idh) ^ splitmix(shard.wrapping_mul(0x1234567)));
    let mut out = [0u8; 32];
    for i in 0..4 {
        s = splitmix(s);
        out[i * 8..i * 8 + 8].copy_from_slice(&s.to_le_bytes());
    }
    out
}

fn hash_json(s: &str) -> u64 {
    let mut h = DefaultHasher::new();
    s.hash(&mut h);
    h.finish()
}

#[derive(Default)]
struct Stats {
    evaluations: u64,
    skipped: u64,
    checks: u64,
    dontcare: u64,
    labels: BTreeMap<String, u64>,
    nontrivial: HashSet<u64>,
    nontrivial_total: u64,
    known_excluded: BTreeMap<String, u64>,
    samples: Vec<serde_json::Value>,
    any_samples: Vec<serde_json::Value>,
    skip_reasons: BTreeMap<String, u64>,
}

impl Stats {
    fn merge(&mut self, o: Stats) {
        self.evaluations += o.evaluations;
        self.skipped += o.skipped;
        self.checks += o.checks;
        self.dontcare += o.dontcare;
        self.nontrivial_total += o.nontrivial_total;
        for (k, v) in o.labels {
            *self.labels.entry(k).or_default() += v;
        }
        for (k, v) in o.known_excluded {
            *self.known_excluded.entry(k).or_default() += v;
        }
        for (k, v) in o.skip_reasons {
            *self.skip_reasons.entry(k).or_default() += v;
        }
        self.nontrivial.extend(o.nontrivial);
        self.samples.extend(o.samples);
        if self.any_samples.len() < 3 {
            self.any_samples.extend(o.any_samples);
        }
    }
}

/// run one case with full panic capture; an escaping panic is a failure of facet "panic"
pub fn run_case<P: Property>(p: &P, case: &P::Case) -> Outcome {
    match catch(|| p.run(case)) {
        Ok(o) => o,
        Err(pi) => {
            let mut o = Outcome::new();
            o.fail(
                "panic",
                pi.signature(),
                format!("panic escaped at {}:{}: {}", pi.file, pi.line, pi.msg),
            );
            o
        }
    }
}

fn unlisted<'a>(failures: &'a [Failure], known: &[Finding], strict: bool) -> Vec<&'a Failure> {
    failures
        .iter()
        .filter(|f| strict || !known.iter().any(|k| !k.fixed && k.matches(f)))
        .collect()
}

fn account<P: Property>(
    stats: &mut Stats,
    case: &P::Case,
    out: &Outcome,
    sample_cap: usize,
    known: &[Finding],
) {
    stats.evaluations += 1;
    stats.checks += out.checks;
    stats.dontcare += out.dontcare;
    if let Some(r) = &out.skip {
        stats.skipped += 1;
        *stats.skip_reasons.entry(r.clone()).or_default() += 1;
    }
    for l in &out.labels {
        *stats.labels.entry(l.clone()).or_default() += 1;
    }
    for f in &out.failures {
        if known.iter().any(|k| !k.fixed && k.matches(f)) {
            *stats
                .known_excluded
                .entry(format!("{}:{}", f.facet, f.signature))
                .or_default() += 1;
        }
    }
    if stats.any_samples.is_empty() {
        if let Ok(v) = serde_json::to_value(case) {
            stats.any_samples.push(v);
        }
    }
    if out.nontrivial && out.skip.is_none() {
        stats.nontrivial_total += 1;
        let js = serde_json::to_string(case).unwrap_or_default();
        let h = hash_json(&js);
        if stats.nontrivial.insert(h) && stats.samples.len() < sample_cap && js.len() < 6000 {
            if let Ok(v) = serde_json::from_str(&js) {
                stats.samples.push(v);
            }
        }
    }
}

pub struct Violation {
    pub replay: PathBuf,
    pub failures: Vec<Failure>,
}

fn write_replay<P: Property>(p: &P, seed: u64, case: &P::Case, failures: &[Failure]) -> PathBuf {
    let dir = verif_root().join("replays");
    let _ = std::fs::create_dir_all(&dir);
    let cj = serde_json::to_value(case).unwrap_or(serde_json::Value::Null);
    let h = hash_json(&cj.to_string());
    let path = dir.join(format!("{}-{}-{:016x}.json", p.id(), seed, h));
    let rf = ReplayFile {
        property: p.id().to_string(),
        seed,
        case: cj,
        failures: failures.to_vec(),
    };
    let _ = std::fs::write(&path, serde_json::to_string_pretty(&rf).unwrap());
    path
}

fn load_case<P: Property>(path: &Path) -> Result<P::Case, String> {
    let text = std::fs::read_to_string(path).map_err(|e| format!("{}: {}", path.display(), e))?;
    let rf: ReplayFile = serde_json::from_str(&text).map_err(|e| format!("{}: {}", path.display(), e))?;
    serde_json::from_value(rf.case).map_err(|e| format!("{}: case: {}", path.display(), e))
}

fn start_watchdog(budget_s: u64, id: &'static str) {
    std::thread::spawn(move || {
        std::thread::sleep(std::time::Duration::from_secs(budget_s));
        println!(
            "INCONCLUSIVE property={} wall budget of {} s exceeded (not a violation)",
            id, budget_s
        );
        std::process::exit(2);
    });
}

/// Entry point for one property. Returns the process exit code.
pub fn main_for<P: Property>(p: P, opts: &Opts) -> i32 {
    install_panic_hook();
    let id = p.id();
    let known = load_findings(id);
    let root = verif_root();
    let t0 = Instant::now();

    // ---- explicit replay -----------------------------------------------------------------
    if let Some(path) = &opts.replay {
        let case = match load_case::<P>(path) {
            Ok(c) => c,
            Err(e) => {
                println!("ERROR cannot load replay: {}", e);
                return 2;
            }
        };
        let out = run_case(&p, &case);
        for f in &out.failures {
            println!("  failure facet={} signature={} :: {}", f.facet, f.signature, f.detail);
        }
        if let Some(s) = &out.skip {
            println!("  skipped: {}", s);
        }
        println!("  labels: {:?} nontrivial={}", out.labels, out.nontrivial);
        let un = unlisted(&out.failures, &known, opts.strict);
        if !un.is_empty() {
            println!("VIOLATION property={} replay={}", id, path.display());
            return 1;
        }
        for f in &out.failures {
            if let Some(k) = known.iter().find(|k| !k.fixed && k.matches(f)) {
                println!("KNOWN-FINDING: property={} {}", id, k.what);
            }
        }
        println!("OK property={} replay held", id);
        return 0;
    }

    let budget = std::env::var("VERIF_BUDGET_S")
        .ok()
        .and_then(|s| s.parse().ok())
        .unwrap_or(opts.tier.pick(1500, 6 * 3600));
    start_watchdog(budget, id);

    let mut total = Stats::default();
    let mut violation: Option<Violation> = None;
    let mut notes: Vec<String> = vec![];
    let mut known_lines: Vec<String> = vec![];

    // ---- stage 1: witnesses of known / fixed findings ------------------------------------------
    let mut witness_runs = 0u64;
    let mut fallback_samples: Vec<serde_json::Value> = vec![];
    let skip_witnesses = std::env::var("VERIF_SKIP_WITNESSES").is_ok();
    for k in &known {
        let Some(w) = &k.witness else { continue };
        if skip_witnesses {
            // evaluation aid only (search-only sensitivity runs); registered commands never set this
            continue;
        }
        let path = root.join(w);
        let case = match load_case::<P>(&path) {
            Ok(c) => c,
            Err(e) => {
                println!("ERROR witness unreadable: {}", e);
                return 2;
            }
        };
        witness_runs += 1;
        if fallback_samples.len() < 3 {
            if let Ok(v) = serde_json::to_value(&case) {
                fallback_samples.push(v);
            }
        }
        let out = run_case(&p, &case);
        if k.fixed {
            // must not fail with its signature, nor with anything unlisted
            let un = unlisted(&out.failures, &known, false);
            if !un.is_empty() {
                for f in &out.failures {
                    println!("  failure facet={} signature={} :: {}", f.facet, f.signature, f.detail);
                }
                println!("  (regression of fixed finding: {})", k.what);
                if violation.is_none() {
                    violation = Some(Violation {
                        replay: path.clone(),
                        failures: out.failures.clone(),
                    });
                }
            }
        } else {
            let still = out.failures.iter().any(|f| k.matches(f));
            if still {
                let line = format!("KNOWN-FINDING: property={} {}", id, k.what);
                if !known_lines.contains(&line) {
                    known_lines.push(line);
                }
            } else {
                notes.push(format!(
                    "known finding no longer reproduces on its witness: {} ({})",
                    k.signature, w
                ));
            }
            let un = unlisted(&out.failures, &known, false);
            if !un.is_empty() && violation.is_none() {
                for f in &un {
                    println!("  failure facet={} signature={} :: {}", f.facet, f.signature, f.detail);
                }
                violation = Some(Violation {
                    replay: path.clone(),
                    failures: out.failures.clone(),
                });
            }
        }
    }
    for l in &known_lines {
        println!("{}", l);
    }

    // ---- stage 2: enumerated cases ----------------------------------------------------------
    let enumerated = if violation.is_none() {
        p.enumerate(opts.tier)
    } else {
        vec![]
    };
    let n_enum = enumerated.len() as u64;
    let p = Arc::new(p);
    let cancel = Arc::new(AtomicBool::new(false));
    if !enumerated.is_empty() {
        let enumerated = Arc::new(enumerated);
        let next = Arc::new(AtomicU64::new(0));
        let found: Arc<Mutex<Option<(usize, Vec<Failure>)>>> = Arc::new(Mutex::new(None));
        let mut handles = vec![];
        for _ in 0..opts.threads {
            let p = p.clone();
            let enumerated = enumerated.clone();
            let next = next.clone();
            let found = found.clone();
            let cancel = cancel.clone();
            let known = known.clone();
            handles.push(
                std::thread::Builder::new()
                    .stack_size(64 << 20)
                    .spawn(move || {
                        let mut stats = Stats::default();
                        loop {
                            if cancel.load(Ordering::Relaxed) {
                                break;
                            }
                            let i = next.fetch_add(1, Ordering::Relaxed) as usize;
                            if i >= enumerated.len() {
                                break;
                            }
                            let case = &enumerated[i];
                            let out = run_case(&*p, case);
                            account::<P>(&mut stats, case, &out, 2, &known);
                            let un = unlisted(&out.failures, &known, false);
                            if !un.is_empty() {
                                let mut g = found.lock().unwrap();
                                if g.as_ref().map(|(j, _)| i < *j).unwrap_or(true) {
                                    *g = Some((i, out.failures.clone()));
                                }
                                cancel.store(true, Ordering::Relaxed);
                                break;
                            }
                        }
                        stats
                    })
                    .unwrap(),
            );
        }
        for h in handles {
            match h.join() {
                Ok(stats) => total.merge(stats),
                Err(_) => {
                    println!("ERROR property={} a worker thread of the harness panicked outside a case (harness defect, not a violation)", id);
                    return 2;
                }
            }
        }
        let taken = found.lock().unwrap().take();
        if let Some((i, failures)) = taken {
            let path = write_replay(&*p, opts.seed, &enumerated[i], &failures);
            for f in &failures {
                println!("  failure facet={} signature={} :: {}", f.facet, f.signature, f.detail);
            }
            violation = Some(Violation { replay: path, failures });
        }
    }

    // ---- stage 3: random cases, sharded --------------------------------------------------------
    let cases = opts.cases_override.unwrap_or_else(|| match opts.frac {
        Some(f) => ((p.cases(opts.tier) as f64) * f).ceil() as u64,
        None => p.cases(opts.tier),
    });
    if violation.is_none() && cases > 0 {
        let per_shard = (cases + SHARDS - 1) / SHARDS;
        let next_shard = Arc::new(AtomicU64::new(0));
        let found: Arc<Mutex<Vec<(u64, P::Case, Vec<Failure>)>>> = Arc::new(Mutex::new(vec![]));
        let mut handles = vec![];
        for _ in 0..opts.threads {
            let p = p.clone();
            let next_shard = next_shard.clone();
            let cancel = cancel.clone();
            let known = known.clone();
            let found = found.clone();
            let tier = opts.tier;
            let seed = opts.seed;
            handles.push(
                std::thread::Builder::new()
                    .stack_size(64 << 20)
                    .spawn(move || {
                        let mut stats = Stats::default();
                        loop {
                            let shard = next_shard.fetch_add(1, Ordering::Relaxed);
                            if shard >= SHARDS || cancel.load(Ordering::Relaxed) {
                                break;
                            }
                            let config = Config {
                                cases: per_shard as u32,
                                failure_persistence: None,
                                max_shrink_iters: 20000,
                                max_global_rejects: 1 << 30,
                                max_local_rejects: 1 << 30,
                                verbose: 0,
                                ..Config::default()
                            };
                            let rng = TestRng::from_seed(RngAlgorithm::ChaCha, &shard_seed(seed, p.id(), shard));
                            let mut runner = TestRunner::new_with_rng(config, rng);
                            let strat = p.strategy(tier);
                            let failed_once = std::cell::Cell::new(false);
                            let stats_cell = RefCell::new(&mut stats);
                            let res = runner.run(&strat, |case| {
                                if cancel.load(Ordering::Relaxed) && !failed_once.get() {
                                    return Ok(());
                                }
                                let out = run_case(&*p, &case);
                                if !failed_once.get() {
                                    account::<P>(&mut *stats_cell.borrow_mut(), &case, &out, 2, &known);
                                }
                                let un = unlisted(&out.failures, &known, false);
                                if !un.is_empty() {
                                    failed_once.set(true);
                                    return Err(TestCaseError::fail(un[0].signature.clone()));
                                }
                                Ok(())
                            });
                            match res {
                                Ok(()) => {}
                                Err(TestError::Fail(reason, case)) => {
                                    cancel.store(true, Ordering::Relaxed);
                                    let out = run_case(&*p, &case);
                                    let mut failures = out.failures;
                                    if failures.is_empty() {
                                        // the shrunk case does not fail when run again: the oracle is not a pure function of the case
                                        failures.push(Failure {
                                            facet: "flaky".into(),
                                            signature: format!("not-reproducible|{}", reason.message()),
                                            detail: "a generated case failed once but passes when re-run".into(),
                                        });
                                    }
                                    found.lock().unwrap().push((shard, case, failures));
                                    break;
                                }
                                Err(TestError::Abort(r)) => {
                                    eprintln!("shard {} aborted: {}", shard, r);
                                }
                            }
                        }
                        stats
                    })
                    .unwrap(),
            );
        }
        for h in handles {
            match h.join() {
                Ok(stats) => total.merge(stats),
                Err(_) => {
                    println!("ERROR property={} a worker thread of the harness panicked outside a case (harness defect, not a violation)", id);
                    return 2;
                }
            }
        }
        let mut found = found.lock().unwrap();
        found.sort_by_key(|x| x.0);
        if let Some((_, case, failures)) = found.first() {
            let path = write_replay(&*p, opts.seed, case, failures);
            for f in failures {
                println!("  failure facet={} signature={} :: {}", f.facet, f.signature, f.detail);
            }
            violation = Some(Violation {
                replay: path,
                failures: failures.clone(),
            });
        }
    }

    // ---- evidence -------------------------------------------------------------------------
    let wall = t0.elapsed().as_secs_f64();
    let health = if violation.is_none() {
        p.health(&total.labels, total.evaluations)
    } else {
        vec![]
    };
    let skip_frac = if total.evaluations > 0 {
        total.skipped as f64 / total.evaluations as f64
    } else {
        0.0
    };
    let mut samples = total.samples.clone();
    if samples.is_empty() {
        samples = total.any_samples.clone();
    }
    if samples.is_empty() {
        samples = fallback_samples.clone();
    }
    if samples.len() > 20 {
        let stride = samples.len() / 20;
        samples = samples.into_iter().step_by(stride.max(1)).take(20).collect();
    }
    let mut coverage = serde_json::json!({
        "evaluations": total.evaluations + witness_runs,
        "distinct_nontrivial": total.nontrivial.len(),
        "nontrivial_total": total.nontrivial_total,
        "rule": p.rule(),
        "samples": samples,
        "random_cases": total.evaluations - n_enum.min(total.evaluations),
        "enumerated_cases": n_enum,
        "witness_replays": witness_runs,
        "elementary_checks": total.checks,
        "dont_care": total.dontcare,
        "skipped": total.skipped,
        "skip_reasons": total.skip_reasons,
        "labels": total.labels,
        "known_excluded": total.known_excluded,
        "known_findings_reported": known_lines,
        "notes": notes,
    });
    if let Some(n) = p.exhaustive_note(opts.tier) {
        coverage["exhaustive"] = serde_json::Value::Bool(true);
        coverage["exhaustive_scope"] = serde_json::Value::String(n);
    }
    let extra = p.extra_coverage();
    if let serde_json::Value::Object(m) = extra {
        for (k, v) in m {
            coverage[k] = v;
        }
    }
    let mut assumptions = p.assumptions();
    assumptions.push("oracle and generators are part of the trusted base; a pass means no violation was found among the generated cases, not absence".into());
    let evidence = serde_json::json!({
        "property_id": id,
        "tier": opts.tier.name(),
        "seed": opts.seed,
        "level": "exploration",
        "coverage": coverage,
        "assumptions": assumptions,
        "wall_s": wall,
        "violations": if violation.is_some() { 1 } else { 0 },
    });
    if !opts.no_evidence {
        let dir = root.join("evidence");
        let _ = std::fs::create_dir_all(&dir);
        let _ = std::fs::write(
            dir.join(format!("{}.json", id)),
            serde_json::to_string_pretty(&evidence).unwrap(),
        );
    }

    if let Some(v) = violation {
        if v.failures.iter().all(|f| f.facet == "flaky") && !v.failures.is_empty() {
            println!("INCONCLUSIVE property={} a failure did not reproduce on re-run (flaky check, not a violation); case saved at {}", id, v.replay.display());
            return 2;
        }
        println!("VIOLATION property={} replay={}", id, v.replay.display());
        return 1;
    }
    if skip_frac > 0.25 {
        println!(
            "INCONCLUSIVE property={} generator unhealthy: {:.1}% of cases skipped",
            id,
            skip_frac * 100.0
        );
        return 2;
    }
    if !health.is_empty() {
        for h in &health {
            println!("INCONCLUSIVE property={} generator unhealthy: {}", id, h);
        }
        return 2;
    }
    println!(
        "OK property={} tier={} seed={} evaluations={} distinct_nontrivial={} known_excluded={} wall_s={:.1}",
        id,
        opts.tier.name(),
        opts.seed,
        total.evaluations + witness_runs,
        total.nontrivial.len(),
        total.known_excluded.values().sum::<u64>(),
        wall
    );
    0
}

/// helper used by strategies: map a u16 index monotonically onto 0..len (len>0)
pub fn pick(idx: u16, len: usize) -> usize {
    debug_assert!(len > 0);
    ((idx as usize) * len) >> 16
}

pub fn boxed<S: Strategy + 'static>(s: S) -> BoxedStrategy<S::Value> {
    s.boxed()
}
