pub mod content;
pub mod engine;
pub mod hcheck;
pub mod hist;
pub mod model;
pub mod observe;
pub mod props;
pub mod rel;
