pub mod engine;
pub mod props;
pub mod rel;
