//! Operation histories: serialisable ops, proptest strategies, and the interpreter that applies
//! each op to a real `AnnotationStore` and to the reference `Model`.

use crate::engine::{catch, pick, PanicInfo};
use crate::model::*;
use proptest::prelude::*;
use serde::{Deserialize, Serialize};
use stam::*;
use std::collections::BTreeSet;

// ------------------------------------------------------------------------------------------------
// specs

#[derive(Clone, Debug, Serialize, Deserialize, PartialEq)]
pub struct OffSpec {
    pub b: u16,
    pub e: u16,
    pub b_end: bool,
    pub e_end: bool,
}

impl OffSpec {
    /// resolve against a parent of length `len`: (lo, hi) with 0 <= lo <= hi <= len
    pub fn resolve(&self, len: usize) -> (usize, usize) {
        let lo = pick(self.b, len + 1);
        let hi = lo + pick(self.e, len - lo + 1);
        (lo, hi)
    }
    pub fn to_offset(&self, len: usize) -> Offset {
        let (lo, hi) = self.resolve(len);
        let b = if self.b_end {
            Cursor::EndAligned(lo as isize - len as isize)
        } else {
            Cursor::BeginAligned(lo)
        };
        let e = if self.e_end {
            Cursor::EndAligned(hi as isize - len as isize)
        } else {
            Cursor::BeginAligned(hi)
        };
        Offset::new(b, e)
    }
    pub fn mode(&self) -> Mode {
        (self.b_end, self.e_end)
    }
}

#[derive(Clone, Debug, Serialize, Deserialize, PartialEq)]
pub enum SelSpec {
    Text { res: u16, off: OffSpec },
    Ann { ann: u16, off: Option<OffSpec> },
    /// the live annotation `plus` positions after the k-th live one (runs of consecutive annotations)
    AnnAt { base: u16, plus: u8, off: Option<OffSpec> },
    Res { res: u16 },
    Set { set: u16 },
    Key { set: u16, key: u16 },
    Data { set: u16, data: u16 },
    Multi(Vec<SelSpec>),
    Composite(Vec<SelSpec>),
    Directional(Vec<SelSpec>),
}

#[derive(Clone, Debug, Serialize, Deserialize, PartialEq)]
pub enum SetRef {
    /// k-th live dataset
    Live(u16),
    /// a dataset that does not exist yet (annotate creates it on the fly)
    Fresh,
}

#[derive(Clone, Debug, Serialize, Deserialize, PartialEq)]
pub enum ADSpec {
    New { set: SetRef, with_id: bool, key: u8, val: Val },
    Existing { set: u16, data: u16 },
}

#[derive(Clone, Debug, Serialize, Deserialize, PartialEq)]
pub struct DSpec {
    pub with_id: bool,
    pub key: u8,
    pub val: Val,
}

#[derive(Clone, Debug, Serialize, Deserialize, PartialEq)]
pub enum Op {
    AddResource { text: String, sfx: u8 },
    AddDataset { sfx: u8, data: Vec<DSpec> },
    InsertData { set: u16, d: DSpec },
    Annotate { with_id: bool, sfx: u8, by_handle: bool, target: SelSpec, data: Vec<ADSpec> },
    RemoveAnnotation {
        pick: u16,
        by_id: bool,
        /// address the item by its temporary id ("!A<handle>") instead
        #[serde(default)]
        by_temp: bool,
    },
    RemoveData {
        set: u16,
        pick: u16,
        strict: bool,
        /// address set and item by (public or temporary) id instead of by handle
        #[serde(default)]
        by_id: bool,
    },
    RemoveKey {
        set: u16,
        pick: u16,
        strict: bool,
        #[serde(default)]
        by_id: bool,
    },
    RemoveResource {
        pick: u16,
        by_id: bool,
        #[serde(default)]
        by_temp: bool,
    },
    RemoveDataset {
        pick: u16,
        by_id: bool,
        #[serde(default)]
        by_temp: bool,
    },
    ProtectText { mode: u8 },
    /// performance-only: must not change any answer
    ShrinkToFit,
    /// declare a key that no data uses (as the "keys" list of a STAM JSON dataset does): `dataset.insert(DataKey::new(..))`
    AddKey { set: u16, name: u8 },
}

impl Op {
    pub fn is_removal(&self) -> bool {
        matches!(
            self,
            Op::RemoveAnnotation { .. }
                | Op::RemoveData { .. }
                | Op::RemoveKey { .. }
                | Op::RemoveResource { .. }
                | Op::RemoveDataset { .. }
        )
    }
}

pub const KEYS: [&str; 6] = ["pos", "lemma", "n", "κλειδί", "a b", "type"];
pub const KEYS_HOSTILE: [&str; 6] = ["pos", "le\"mma", "n\\x", "κλει\tδί", "a b", "http://example.org/type"];
/// names of keys declared without data (disjoint from KEYS / KEYS_HOSTILE)
pub const BARE_KEYS: [&str; 6] = ["status", "reviewed", "conf", "κ0", "x y", "note"];
pub const SUFFIXES: [&str; 6] = ["", "", "-x", "é", " z", "/p"];
pub const SUFFIXES_HOSTILE: [&str; 6] = ["", "\"q", "\\b", "é\n", " z\t", "/p😀"];

#[derive(Clone, Debug, Serialize, Deserialize, PartialEq)]
pub struct History {
    /// use hostile id/key alphabets (quotes, backslashes, control characters)
    #[serde(default)]
    pub hostile: bool,
    pub ops: Vec<Op>,
}

// ------------------------------------------------------------------------------------------------
// strategies

pub const ALPHABET: [char; 16] = [
    'a', 'b', 'c', 'a', 'b', ' ', ' ', 'é', 'ß', 'İ', '日', '😀', '\n', 'K', 'ǅ', 'x',
];

pub fn text_strategy(max: usize) -> BoxedStrategy<String> {
    proptest::collection::vec(proptest::sample::select(ALPHABET.to_vec()), 0..=max)
        .prop_map(|v| v.into_iter().collect())
        .boxed()
}

pub fn str_val_strategy(hostile: bool) -> BoxedStrategy<String> {
    if hostile {
        prop_oneof![
            proptest::sample::select(vec![
                "noun".to_string(),
                "verb".to_string(),
                "a\"b".to_string(),
                "back\\slash".to_string(),
                "tab\there".to_string(),
                "nl\nx".to_string(),
                "\u{1}ctl\u{7f}".to_string(),
                "é😀".to_string(),
                "12".to_string(),
                "1.5".to_string(),
                "true".to_string(),
                "null".to_string(),
                "http://example.org/x".to_string(),
                "".to_string(),
            ]),
            text_strategy(6),
        ]
        .boxed()
    } else {
        prop_oneof![
            proptest::sample::select(vec![
                "noun".to_string(),
                "verb".to_string(),
                "12".to_string(),
                "1.5".to_string(),
                "Noun".to_string(),
                "".to_string(),
            ]),
            text_strategy(6),
        ]
        .boxed()
    }
}

pub fn leaf_val_strategy(hostile: bool) -> BoxedStrategy<Val> {
    prop_oneof![
        1 => Just(Val::Null),
        4 => str_val_strategy(hostile).prop_map(Val::Str),
        1 => any::<bool>().prop_map(Val::Bool),
        3 => prop_oneof![(-3i64..=3), Just(12i64), Just(i64::MAX), Just(i64::MIN)].prop_map(Val::Int),
        2 => proptest::sample::select(vec![0.0f64, 1.5, -2.25, 12.0, 1e10, 3.0, -0.0, 1e-7]).prop_map(Val::Float),
        1 => proptest::sample::select(vec![
            "2024-01-02T03:04:05+00:00".to_string(),
            "2024-01-02T03:04:05+02:00".to_string(),
            "1999-12-31T23:59:59-05:00".to_string(),
            "2024-06-01T00:00:00.250+00:00".to_string(),
            "2024-06-01T12:34:56.123456+02:00".to_string(),
            "2001-02-03T04:05:06.123456789-03:30".to_string(),
        ])
        .prop_map(Val::Dt),
    ]
    .boxed()
}

pub fn val_strategy(hostile: bool) -> BoxedStrategy<Val> {
    let leaf = leaf_val_strategy(hostile);
    prop_oneof![
        8 => leaf.clone(),
        1 => proptest::collection::vec(leaf.clone(), 0..=3).prop_map(Val::List),
        1 => proptest::collection::vec(
            prop_oneof![3 => leaf.clone(), 1 => proptest::collection::vec(leaf, 0..=2).prop_map(Val::List)],
            1..=3
        )
        .prop_map(Val::List),
    ]
    .boxed()
}

fn idx() -> BoxedStrategy<u16> {
    prop_oneof![6 => any::<u16>(), 1 => Just(0u16), 1 => Just(u16::MAX)].boxed()
}

pub fn offspec_strategy() -> BoxedStrategy<OffSpec> {
    (idx(), prop_oneof![4 => any::<u16>(), 1 => Just(0u16), 2 => Just(u16::MAX), 2 => (0u16..6000)], any::<bool>(), any::<bool>())
        .prop_map(|(b, e, b_end, e_end)| OffSpec { b, e, b_end, e_end })
        .boxed()
}

fn simple_selspec() -> BoxedStrategy<SelSpec> {
    prop_oneof![
        8 => (idx(), offspec_strategy()).prop_map(|(res, off)| SelSpec::Text { res, off }),
        5 => (idx(), proptest::option::weighted(0.6, offspec_strategy())).prop_map(|(ann, off)| SelSpec::Ann { ann, off }),
        // relative to the most recent annotation (builds chains of relative offsets)
        3 => offspec_strategy().prop_map(|off| SelSpec::Ann { ann: u16::MAX, off: Some(off) }),
        2 => idx().prop_map(|res| SelSpec::Res { res }),
        1 => idx().prop_map(|set| SelSpec::Set { set }),
        2 => (idx(), idx()).prop_map(|(set, key)| SelSpec::Key { set, key }),
        2 => (idx(), idx()).prop_map(|(set, data)| SelSpec::Data { set, data }),
    ]
    .boxed()
}

fn ann_off_choice() -> BoxedStrategy<Option<OffSpec>> {
    prop_oneof![
        3 => Just(None),
        4 => Just(Some(OffSpec { b: 0, e: u16::MAX, b_end: false, e_end: true })),
        1 => Just(Some(OffSpec { b: 0, e: u16::MAX, b_end: false, e_end: false })),
        1 => Just(Some(OffSpec { b: 0, e: u16::MAX, b_end: true, e_end: true })),
        2 => any::<u16>().prop_map(|e| Some(OffSpec { b: 0, e, b_end: false, e_end: false })),
        1 => any::<u16>().prop_map(|b| Some(OffSpec { b, e: u16::MAX, b_end: false, e_end: true })),
        1 => offspec_strategy().prop_map(Some),
    ]
    .boxed()
}

/// sub-selector lists biased towards the shapes that trigger internal range compression:
/// runs of text selectors on one resource, runs of annotation selectors
fn subselectors() -> BoxedStrategy<Vec<SelSpec>> {
    prop_oneof![
        3 => proptest::collection::vec(simple_selspec(), 2..=5),
        3 => (idx(), proptest::collection::vec(offspec_strategy(), 2..=5)).prop_map(|(res, offs)| {
            offs.into_iter().map(|off| SelSpec::Text { res, off }).collect()
        }),
        4 => (any::<u16>(), proptest::collection::vec(ann_off_choice(), 2..=4)).prop_map(|(base, offs)| {
            // a run of consecutive live annotations, each with its own kind of offset: none, whole text (in either
            // alignment), a prefix, a suffix, or arbitrary - the shapes that decide whether the run is range-compressed
            offs.into_iter()
                .enumerate()
                .map(|(i, off)| SelSpec::AnnAt { base, plus: i as u8, off })
                .collect()
        }),
        1 => (simple_selspec(), 2usize..=3).prop_map(|(s, n)| vec![s; n]),
    ]
    .boxed()
}

pub fn selspec_strategy(complex_weight: u32) -> BoxedStrategy<SelSpec> {
    prop_oneof![
        12 => simple_selspec(),
        complex_weight => subselectors().prop_map(SelSpec::Multi),
        complex_weight => subselectors().prop_map(SelSpec::Composite),
        complex_weight => subselectors().prop_map(SelSpec::Directional),
    ]
    .boxed()
}

fn dspec(hostile: bool) -> BoxedStrategy<DSpec> {
    (proptest::bool::weighted(0.4), 0u8..6, val_strategy(hostile))
        .prop_map(|(with_id, key, val)| DSpec { with_id, key, val })
        .boxed()
}

fn adspec(hostile: bool) -> BoxedStrategy<ADSpec> {
    prop_oneof![
        6 => (prop_oneof![5 => idx().prop_map(SetRef::Live), 1 => Just(SetRef::Fresh)], proptest::bool::weighted(0.3), 0u8..6, val_strategy(hostile))
            .prop_map(|(set, with_id, key, val)| ADSpec::New { set, with_id, key, val }),
        3 => (idx(), idx()).prop_map(|(set, data)| ADSpec::Existing { set, data }),
    ]
    .boxed()
}

#[derive(Clone, Debug)]
pub struct HistCfg {
    pub max_ops: usize,
    pub text_max: usize,
    pub removal_weight: u32,
    pub protect_weight: u32,
    pub complex_weight: u32,
    pub hostile: bool,
    /// restrict to dataset/data operations (C10)
    pub data_only: bool,
}

impl Default for HistCfg {
    fn default() -> Self {
        HistCfg {
            max_ops: 25,
            text_max: 30,
            removal_weight: 4,
            protect_weight: 1,
            complex_weight: 2,
            hostile: false,
            data_only: false,
        }
    }
}

pub fn op_strategy(cfg: &HistCfg) -> BoxedStrategy<Op> {
    let h = cfg.hostile;
    let rw = cfg.removal_weight;
    let annotate = (
        proptest::bool::weighted(0.6),
        0u8..6,
        any::<bool>(),
        selspec_strategy(cfg.complex_weight),
        proptest::collection::vec(adspec(h), 0..=3),
    )
        .prop_map(|(with_id, sfx, by_handle, target, data)| Op::Annotate {
            with_id,
            sfx,
            by_handle,
            target,
            data,
        });
    let arms: Vec<(u32, BoxedStrategy<Op>)> = vec![
        (4, ((text_strategy(cfg.text_max), 0u8..6).prop_map(|(text, sfx)| Op::AddResource { text, sfx })).boxed()),
        (2, ((0u8..6, proptest::collection::vec(dspec(h), 0..=4)).prop_map(|(sfx, data)| Op::AddDataset { sfx, data })).boxed()),
        (2, ((idx(), dspec(h)).prop_map(|(set, d)| Op::InsertData { set, d })).boxed()),
        (16, (annotate).boxed()),
        (rw, ((idx(), any::<bool>(), proptest::bool::weighted(0.15)).prop_map(|(pick, by_id, by_temp)| Op::RemoveAnnotation { pick, by_id, by_temp })).boxed()),
        (rw, ((idx(), idx(), any::<bool>(), proptest::bool::weighted(0.3)).prop_map(|(set, pick, strict, by_id)| Op::RemoveData { set, pick, strict, by_id })).boxed()),
        (rw / 2 + 1, ((idx(), idx(), any::<bool>(), proptest::bool::weighted(0.3)).prop_map(|(set, pick, strict, by_id)| Op::RemoveKey { set, pick, strict, by_id })).boxed()),
        (1, (Just(Op::ShrinkToFit)).boxed()),
        (1, ((idx(), 0u8..6).prop_map(|(set, name)| Op::AddKey { set, name })).boxed()),
        (rw / 4 + 1, ((idx(), any::<bool>(), proptest::bool::weighted(0.15)).prop_map(|(pick, by_id, by_temp)| Op::RemoveResource { pick, by_id, by_temp })).boxed()),
        (rw / 4 + 1, ((idx(), any::<bool>(), proptest::bool::weighted(0.15)).prop_map(|(pick, by_id, by_temp)| Op::RemoveDataset { pick, by_id, by_temp })).boxed()),
        (cfg.protect_weight, ((0u8..4).prop_map(|mode| Op::ProtectText { mode })).boxed()),
    ];
    proptest::strategy::Union::new_weighted(arms.into_iter().filter(|(w, _)| *w > 0).collect()).boxed()
}

pub fn history_strategy(cfg: HistCfg) -> BoxedStrategy<History> {
    // every history starts with a resource and a dataset so that early ops have referents
    let hostile = cfg.hostile;
    let prefix = (text_strategy(cfg.text_max), proptest::collection::vec(dspec(hostile), 1..=3))
        .prop_map(|(text, data)| vec![Op::AddResource { text, sfx: 0 }, Op::AddDataset { sfx: 0, data }]);
    (prefix, proptest::collection::vec(op_strategy(&cfg), 0..=cfg.max_ops))
        .prop_map(move |(mut p, ops)| {
            p.extend(ops);
            History { hostile, ops: p }
        })
        .boxed()
}

// ------------------------------------------------------------------------------------------------
// interpreter

#[derive(Clone, Debug, Default)]
pub struct RemovalInfo {
    pub doomed: BTreeSet<usize>,
    pub modified: BTreeSet<usize>,
    /// the removed item had at least one dependent annotation
    pub had_dependents: bool,
    /// at least one annotation of the store survives the removal
    pub had_survivors: bool,
}

#[derive(Clone, Debug)]
pub struct Step {
    pub kind: &'static str,
    pub skipped: Option<&'static str>,
    /// what the store call returned (Ok / Err(message))
    pub result: Result<(), String>,
    pub panic: Option<PanicInfo>,
    /// the call returned something other than what the model predicts (e.g. a different handle)
    pub mismatch: Option<String>,
    pub removal: Option<RemovalInfo>,
    pub labels: Vec<&'static str>,
}

impl Step {
    fn new(kind: &'static str) -> Self {
        Step {
            kind,
            skipped: None,
            result: Ok(()),
            panic: None,
            mismatch: None,
            removal: None,
            labels: vec![],
        }
    }
    fn skip(kind: &'static str, why: &'static str) -> Self {
        let mut s = Step::new(kind);
        s.skipped = Some(why);
        s
    }
}

pub struct Machine {
    pub store: AnnotationStore,
    pub model: Model,
    pub hostile: bool,
    counter: usize,
    /// the last prepared annotate named the same data twice
    pub dup_data: bool,
    /// give one in six new items a public id that looks like a temporary id ("!A2", "!R0", "!S1", "!D3") - a legal
    /// public id that must resolve to the item carrying it, whatever sits in the slot the number names (C03 only:
    /// in a serialised document such an id is ambiguous with the temporary id of an id-less item)
    pub tempid_ids: bool,
    used_tempid_ids: std::collections::BTreeSet<String>,
}

fn bi_res(m: &Model, r: usize, by_handle: bool) -> BuildItem<'static, TextResource> {
    if by_handle {
        BuildItem::Handle(TextResourceHandle::new(r))
    } else {
        BuildItem::Id(m.res(r).id.clone())
    }
}
fn bi_set(m: &Model, s: usize, by_handle: bool) -> BuildItem<'static, AnnotationDataSet> {
    if by_handle {
        BuildItem::Handle(AnnotationDataSetHandle::new(s))
    } else {
        BuildItem::Id(m.set(s).id.clone())
    }
}
fn bi_ann(m: &Model, a: usize, by_handle: bool) -> BuildItem<'static, Annotation> {
    match (&m.ann(a).id, by_handle) {
        (Some(id), false) => BuildItem::Id(id.clone()),
        _ => BuildItem::Handle(AnnotationHandle::new(a)),
    }
}
fn bi_data(m: &Model, s: usize, d: usize, by_handle: bool) -> BuildItem<'static, AnnotationData> {
    match (&m.set(s).data[d].as_ref().unwrap().id, by_handle) {
        (Some(id), false) => BuildItem::Id(id.clone()),
        _ => BuildItem::Handle(AnnotationDataHandle::new(d)),
    }
}
fn bi_key(m: &Model, s: usize, k: usize, by_handle: bool) -> BuildItem<'static, DataKey> {
    if by_handle {
        BuildItem::Handle(DataKeyHandle::new(k))
    } else {
        BuildItem::Id(m.set(s).keys[k].clone().unwrap())
    }
}

impl Machine {
    pub fn new(hostile: bool) -> Self {
        Machine::with_config(hostile, Config::default())
    }
    pub fn with_config(hostile: bool, config: Config) -> Self {
        Machine {
            store: AnnotationStore::new(config),
            model: Model::default(),
            hostile,
            counter: 0,
            dup_data: false,
            tempid_ids: false,
            used_tempid_ids: Default::default(),
        }
    }
    fn sfx(&self, i: u8) -> &'static str {
        if self.hostile {
            SUFFIXES_HOSTILE[i as usize % 6]
        } else {
            SUFFIXES[i as usize % 6]
        }
    }
    pub fn keyname(&self, i: u8) -> &'static str {
        if self.hostile {
            KEYS_HOSTILE[i as usize % 6]
        } else {
            KEYS[i as usize % 6]
        }
    }
    fn fresh(&mut self, prefix: &str, sfx: u8) -> String {
        self.counter += 1;
        if self.tempid_ids && (self.counter + sfx as usize) % 6 == 5 {
            // the number names a slot that does not exist yet (so the request cannot be read as a reference to a live
            // id-less item) and that later insertions will fill
            let (letter, slots) = match prefix {
                "A" => ("A", self.model.anns.len()),
                "D" => ("D", self.model.sets.iter().flatten().map(|s| s.data.len()).max().unwrap_or(0) + 3),
                "S" | "s" => ("S", self.model.sets.len() + 1),
                "r" => ("R", self.model.resources.len()),
                _ => ("A", self.model.anns.len()),
            };
            let cand = format!("!{}{}", letter, slots + 1 + (self.counter + sfx as usize) % 2);
            if self.used_tempid_ids.insert(cand.clone()) {
                return cand;
            }
        }
        // one id in seven starts with '#' (URI-fragment style; a comment marker in many line-based formats)
        if (self.counter + sfx as usize) % 7 == 3 {
            return format!("#{}{}{}", prefix, self.counter, self.sfx(sfx));
        }
        format!("{}{}{}", prefix, self.counter, self.sfx(sfx))
    }

    /// resolve a simple selector spec against the model
    fn resolve_simple(&self, spec: &SelSpec, by_handle: bool) -> Option<(SelectorBuilder<'static>, MSel)> {
        let m = &self.model;
        match spec {
            SelSpec::Text { res, off } => {
                let live = m.live_resources();
                if live.is_empty() {
                    return None;
                }
                let r = live[pick(*res, live.len())];
                let len = m.res(r).text.len();
                let (lo, hi) = off.resolve(len);
                Some((
                    SelectorBuilder::TextSelector(bi_res(m, r, by_handle), off.to_offset(len)),
                    MSel::Text {
                        res: r,
                        begin: lo,
                        end: hi,
                        mode: off.mode(),
                    },
                ))
            }
            SelSpec::Ann { .. } | SelSpec::AnnAt { .. } => {
                let live = m.live_anns();
                if live.is_empty() {
                    return None;
                }
                let (a, off) = match spec {
                    SelSpec::Ann { ann, off } => (live[pick(*ann, live.len())], off),
                    SelSpec::AnnAt { base, plus, off } => (live[(pick(*base, live.len()) + *plus as usize) % live.len()], off),
                    _ => unreachable!(),
                };
                match (off, m.single_text(a)) {
                    (Some(off), Some((r, pb, pe))) => {
                        let len = pe - pb;
                        let (lo, hi) = off.resolve(len);
                        Some((
                            SelectorBuilder::AnnotationSelector(bi_ann(m, a, by_handle), Some(off.to_offset(len))),
                            MSel::Ann {
                                ann: a,
                                text: Some((r, pb + lo, pb + hi, off.mode())),
                            },
                        ))
                    }
                    _ => Some((
                        SelectorBuilder::AnnotationSelector(bi_ann(m, a, by_handle), None),
                        MSel::Ann { ann: a, text: None },
                    )),
                }
            }
            SelSpec::Res { res } => {
                let live = m.live_resources();
                if live.is_empty() {
                    return None;
                }
                let r = live[pick(*res, live.len())];
                Some((SelectorBuilder::ResourceSelector(bi_res(m, r, by_handle)), MSel::Res(r)))
            }
            SelSpec::Set { set } => {
                let live = m.live_sets();
                if live.is_empty() {
                    return None;
                }
                let s = live[pick(*set, live.len())];
                Some((SelectorBuilder::DataSetSelector(bi_set(m, s, by_handle)), MSel::Set(s)))
            }
            SelSpec::Key { set, key } => {
                let live = m.live_sets();
                if live.is_empty() {
                    return None;
                }
                let s = live[pick(*set, live.len())];
                let keys = m.set(s).live_keys();
                if keys.is_empty() {
                    return None;
                }
                let k = keys[pick(*key, keys.len())];
                Some((
                    SelectorBuilder::DataKeySelector(bi_set(m, s, by_handle), bi_key(m, s, k, by_handle)),
                    MSel::Key(s, k),
                ))
            }
            SelSpec::Data { set, data } => {
                let live = m.live_sets();
                if live.is_empty() {
                    return None;
                }
                let s = live[pick(*set, live.len())];
                let ds = m.set(s).live_data();
                if ds.is_empty() {
                    return None;
                }
                let d = ds[pick(*data, ds.len())];
                Some((
                    SelectorBuilder::AnnotationDataSelector(bi_set(m, s, by_handle), bi_data(m, s, d, by_handle)),
                    MSel::Data(s, d),
                ))
            }
            _ => None,
        }
    }

    pub fn resolve_target(&self, spec: &SelSpec, by_handle: bool) -> Option<(SelectorBuilder<'static>, MSel)> {
        let subs = |v: &Vec<SelSpec>| -> Option<(Vec<SelectorBuilder<'static>>, Vec<MSel>)> {
            let mut bs = vec![];
            let mut ms = vec![];
            for (i, s) in v.iter().enumerate() {
                let (b, m) = self.resolve_simple(s, by_handle ^ (i % 2 == 1))?;
                bs.push(b);
                ms.push(m);
            }
            if bs.len() < 2 {
                return None;
            }
            Some((bs, ms))
        };
        match spec {
            SelSpec::Multi(v) => subs(v).map(|(b, m)| (SelectorBuilder::MultiSelector(b), MSel::Multi(m))),
            SelSpec::Composite(v) => subs(v).map(|(b, m)| (SelectorBuilder::CompositeSelector(b), MSel::Composite(m))),
            SelSpec::Directional(v) => {
                subs(v).map(|(b, m)| (SelectorBuilder::DirectionalSelector(b), MSel::Directional(m)))
            }
            s => self.resolve_simple(s, by_handle),
        }
    }

    /// Build the annotate request for the store and compute the model's version of the outcome.
    /// Returns None if a referent is missing (op skipped).
    pub fn prepare_annotate(
        &mut self,
        with_id: bool,
        sfx: u8,
        by_handle: bool,
        target: &SelSpec,
        data: &[ADSpec],
    ) -> Option<(AnnotationBuilder<'static>, Model, usize)> {
        let (id, tb, dbs, next, h) = self.prepare_annotate_parts(with_id, sfx, by_handle, target, data)?;
        let mut builder = AnnotationBuilder::new().with_target(tb);
        if let Some(id) = id {
            builder = builder.with_id(id);
        }
        for db in dbs {
            builder = builder.with_data_builder(db);
        }
        Some((builder, next, h))
    }

    /// like `prepare_annotate` but returns the parts of the request separately (id, target, data builders)
    pub fn prepare_annotate_parts(
        &mut self,
        with_id: bool,
        sfx: u8,
        by_handle: bool,
        target: &SelSpec,
        data: &[ADSpec],
    ) -> Option<(Option<String>, SelectorBuilder<'static>, Vec<AnnotationDataBuilder<'static>>, Model, usize)> {
        let (tb, tm) = self.resolve_target(target, by_handle)?;
        self.dup_data = false;
        let mut next = self.model.clone();
        let mut builder: Vec<AnnotationDataBuilder<'static>> = vec![];
        let id = if with_id { Some(self.fresh("A", sfx)) } else { None };
        let mut mdata = vec![];
        for (i, d) in data.iter().enumerate() {
            let bh = by_handle ^ (i % 2 == 0);
            match d {
                ADSpec::New { set, with_id, key, val } => {
                    let keyname = self.keyname(*key).to_string();
                    let did = if *with_id { Some(self.fresh("D", *key)) } else { None };
                    let live = next.live_sets();
                    let (s, setitem): (usize, BuildItem<'static, AnnotationDataSet>) = match set {
                        SetRef::Live(k) if !live.is_empty() => {
                            let s = live[pick(*k, live.len())];
                            (s, bi_set(&next, s, bh))
                        }
                        _ => {
                            let sid = self.fresh("S", 0);
                            next.sets.push(Some(MSet {
                                id: sid.clone(),
                                keys: vec![],
                                data: vec![],
                            }));
                            (next.sets.len() - 1, BuildItem::Id(sid))
                        }
                    };
                    let (dh, _) = next.sets[s].as_mut().unwrap().insert_data(did.as_deref(), &keyname, val);
                    if !mdata.contains(&(s, dh)) {
                        mdata.push((s, dh));
                    } else {
                        self.dup_data = true;
                    }
                    let mut db = AnnotationDataBuilder::new()
                        .with_dataset(setitem)
                        .with_key(BuildItem::Id(keyname))
                        .with_value(val.to_stam());
                    if let Some(did) = did {
                        db = db.with_id(BuildItem::Id(did));
                    }
                    builder.push(db);
                }
                ADSpec::Existing { set, data } => {
                    let live = next.live_sets();
                    if live.is_empty() {
                        continue;
                    }
                    let s = live[pick(*set, live.len())];
                    let ds = next.set(s).live_data();
                    if ds.is_empty() {
                        continue;
                    }
                    let dh = ds[pick(*data, ds.len())];
                    if !mdata.contains(&(s, dh)) {
                        mdata.push((s, dh));
                    } else {
                        self.dup_data = true;
                    }
                    builder.push(
                        AnnotationDataBuilder::new()
                            .with_dataset(bi_set(&next, s, bh))
                            .with_id(bi_data(&next, s, dh, bh)),
                    );
                }
            }
        }
        next.anns.push(Some(MAnn {
            id: id.clone(),
            target: tm,
            data: mdata,
        }));
        let h = next.anns.len() - 1;
        Some((id, tb, builder, next, h))
    }

    pub fn apply(&mut self, op: &Op) -> Step {
        match op {
            Op::AddResource { text, sfx } => {
                let mut step = Step::new("add_resource");
                let id = self.fresh("r", *sfx);
                let expected = self.model.resources.len();
                let res = catch(|| {
                    self.store
                        .add_resource(TextResourceBuilder::new().with_id(id.clone()).with_text(text.clone()))
                });
                self.model.resources.push(Some(MRes {
                    id,
                    text: text.chars().collect(),
                }));
                self.finish_add(&mut step, res.map(|r| r.map(|h| h.as_usize())), expected);
                step
            }
            Op::AddDataset { sfx, data } => {
                let mut step = Step::new("add_dataset");
                let id = self.fresh("s", *sfx);
                let expected = self.model.sets.len();
                let mut mset = MSet {
                    id: id.clone(),
                    keys: vec![],
                    data: vec![],
                };
                // two construction routes: the builder (add_dataset), or - one time in three - a dataset instance built
                // with AnnotationDataSet::new().with_id().with_data()/with_data_with_id() and inserted into the store
                let direct = *sfx % 3 == 2;
                let mut b = AnnotationDataSetBuilder::new().with_id(id.clone());
                let mut pairs: Vec<(String, DataValue, Option<String>)> = vec![];
                for d in data {
                    let key = self.keyname(d.key).to_string();
                    let did = if d.with_id { Some(self.fresh("D", d.key)) } else { None };
                    let (_, new) = mset.insert_data(did.as_deref(), &key, &d.val);
                    if !new {
                        step.labels.push("repeated_pair");
                    }
                    pairs.push((key.clone(), d.val.to_stam(), did.clone()));
                    let mut db = AnnotationDataBuilder::new()
                        .with_key(BuildItem::Id(key))
                        .with_value(d.val.to_stam());
                    if let Some(did) = did {
                        db = db.with_id(BuildItem::Id(did));
                    }
                    b = b.with_data(db);
                }
                let res = if direct {
                    step.labels.push("dataset_built_directly");
                    let config = self.store.config().clone();
                    catch(|| {
                        let mut ds = AnnotationDataSet::new(config).with_id(id);
                        for (key, value, did) in pairs {
                            ds = match did {
                                Some(did) => ds.with_data_with_id(BuildItem::Id(key), value, BuildItem::Id(did))?,
                                None => ds.with_data(BuildItem::Id(key), value)?,
                            };
                        }
                        self.store.insert(ds)
                    })
                } else {
                    catch(|| self.store.add_dataset(b))
                };
                self.model.sets.push(Some(mset));
                self.finish_add(&mut step, res.map(|r| r.map(|h| h.as_usize())), expected);
                step
            }
            Op::AddKey { set, name } => {
                let live = self.model.live_sets();
                if live.is_empty() {
                    return Step::skip("add_key", "no dataset");
                }
                let s = live[pick(*set, live.len())];
                let key = BARE_KEYS[*name as usize % 6];
                if self.model.set(s).key_by_id(key).is_some() {
                    return Step::skip("add_key", "key exists");
                }
                let mut step = Step::new("add_key");
                step.labels.push("bare_key");
                let sh = AnnotationDataSetHandle::new(s);
                let res = catch(|| {
                    let set: &mut AnnotationDataSet = self.store.get_mut(sh)?;
                    set.insert(DataKey::new(key))
                });
                self.model.sets[s].as_mut().unwrap().keys.push(Some(key.to_string()));
                let expect = self.model.set(s).keys.len() - 1;
                match res {
                    Ok(Ok(h)) => {
                        if h.as_usize() != expect {
                            step.mismatch = Some(format!("insert(DataKey) returned key handle {}, the model expects {}", h.as_usize(), expect));
                        }
                        step.result = Ok(());
                    }
                    Ok(Err(e)) => step.result = Err(format!("{}", e)),
                    Err(p) => step.panic = Some(p),
                }
                step
            }
            Op::InsertData { set, d } => {
                let live = self.model.live_sets();
                if live.is_empty() {
                    return Step::skip("insert_data", "no dataset");
                }
                let mut step = Step::new("insert_data");
                let s = live[pick(*set, live.len())];
                let key = self.keyname(d.key).to_string();
                let did = if d.with_id { Some(self.fresh("D", d.key)) } else { None };
                let mut db = AnnotationDataBuilder::new()
                    .with_dataset(bi_set(&self.model, s, d.key % 2 == 0))
                    .with_key(BuildItem::Id(key.clone()))
                    .with_value(d.val.to_stam());
                if let Some(did) = &did {
                    db = db.with_id(BuildItem::Id(did.clone()));
                }
                let res = catch(|| self.store.insert_data(db));
                let (dh, new) = self.model.sets[s].as_mut().unwrap().insert_data(did.as_deref(), &key, &d.val);
                if !new {
                    step.labels.push("repeated_pair");
                }
                match res {
                    Ok(Ok((sh, h))) => {
                        if sh.as_usize() != s || h.as_usize() != dh {
                            step.mismatch = Some(format!(
                                "insert_data returned ({},{}), the model expects ({},{})",
                                sh.as_usize(),
                                h.as_usize(),
                                s,
                                dh
                            ));
                        }
                    }
                    Ok(Err(e)) => step.result = Err(format!("{}", e)),
                    Err(p) => step.panic = Some(p),
                }
                step
            }
            Op::Annotate {
                with_id,
                sfx,
                by_handle,
                target,
                data,
            } => {
                let Some((builder, next, h)) = self.prepare_annotate(*with_id, *sfx, *by_handle, target, data) else {
                    return Step::skip("annotate", "no referent");
                };
                let mut step = Step::new("annotate");
                let mann = next.anns[h].as_ref().unwrap();
                step.labels.push(mann.target.kind());
                if let MSel::Ann { text: Some(_), ann } = &mann.target {
                    step.labels.push("relative_offset");
                    if matches!(next.ann(*ann).target, MSel::Ann { text: Some(_), .. }) {
                        step.labels.push("relative_depth2");
                    }
                }
                let texts = mann.target.texts();
                let mut uniq = texts.clone();
                uniq.sort();
                uniq.dedup();
                if uniq.len() < texts.len() {
                    step.labels.push("same_text_twice");
                }
                if self.dup_data {
                    step.labels.push("same_data_twice");
                }
                let res = catch(|| self.store.annotate(builder));
                self.model = next;
                self.finish_add(&mut step, res.map(|r| r.map(|h| h.as_usize())), h);
                step
            }
            Op::RemoveAnnotation { pick: p, by_id, by_temp } => {
                let live = self.model.live_anns();
                if live.is_empty() {
                    return Step::skip("remove_annotation", "no annotation");
                }
                let a = live[pick(*p, live.len())];
                let mut step = Step::new("remove_annotation");
                let item = if *by_temp && !self.tempid_ids {
                    step.labels.push("removal_by_temp_id");
                    BuildItem::Id(format!("!A{}", a))
                } else {
                    bi_ann(&self.model, a, !*by_id)
                };
                let res = catch(|| match item {
                    BuildItem::Id(id) => self.store.remove_annotation(id.as_str()),
                    _ => self.store.remove_annotation(AnnotationHandle::new(a)),
                });
                let had = self.model.dependents_of_ann(a) > 0;
                let doomed = self.model.remove_annotation(a);
                self.finish_removal(&mut step, res, doomed, BTreeSet::new(), had);
                step
            }
            Op::RemoveResource { pick: p, by_id, by_temp } => {
                let live = self.model.live_resources();
                if live.is_empty() {
                    return Step::skip("remove_resource", "no resource");
                }
                let r = live[pick(*p, live.len())];
                let mut step = Step::new("remove_resource");
                let id = if *by_temp && !self.tempid_ids {
                    step.labels.push("removal_by_temp_id");
                    format!("!R{}", r)
                } else {
                    self.model.res(r).id.clone()
                };
                let res = catch(|| {
                    if *by_id || *by_temp {
                        self.store.remove_resource(id.as_str())
                    } else {
                        self.store.remove_resource(TextResourceHandle::new(r))
                    }
                });
                let doomed = self.model.remove_resource(r);
                let had = !doomed.is_empty();
                self.finish_removal(&mut step, res, doomed, BTreeSet::new(), had);
                step
            }
            Op::RemoveDataset { pick: p, by_id, by_temp } => {
                let live = self.model.live_sets();
                if live.is_empty() {
                    return Step::skip("remove_dataset", "no dataset");
                }
                let s = live[pick(*p, live.len())];
                let mut step = Step::new("remove_dataset");
                let id = if *by_temp && !self.tempid_ids {
                    step.labels.push("removal_by_temp_id");
                    format!("!S{}", s)
                } else {
                    self.model.set(s).id.clone()
                };
                let res = catch(|| {
                    if *by_id || *by_temp {
                        self.store.remove_dataset(id.as_str())
                    } else {
                        self.store.remove_dataset(AnnotationDataSetHandle::new(s))
                    }
                });
                let doomed = self.model.remove_dataset(s);
                let had = !doomed.is_empty();
                self.finish_removal(&mut step, res, doomed, BTreeSet::new(), had);
                step
            }
            Op::ShrinkToFit => {
                let mut step = Step::new("shrink_to_fit");
                if let Err(p) = catch(|| self.store.shrink_to_fit(true)) {
                    step.panic = Some(p);
                }
                step
            }
            Op::RemoveData { set, pick: p, strict, by_id } => {
                let live = self.model.live_sets();
                if live.is_empty() {
                    return Step::skip("remove_data", "no dataset");
                }
                let s = live[pick(*set, live.len())];
                let ds = self.model.set(s).live_data();
                if ds.is_empty() {
                    return Step::skip("remove_data", "no data");
                }
                let d = ds[pick(*p, ds.len())];
                let mut step = Step::new(if *strict { "remove_data_strict" } else { "remove_data_nonstrict" });
                let users = self
                    .model
                    .live_anns()
                    .into_iter()
                    .filter(|a| self.model.ann(*a).data.contains(&(s, d)))
                    .count();
                if users > 1 {
                    step.labels.push("shared_data");
                }
                let sh = AnnotationDataSetHandle::new(s);
                let dh = AnnotationDataHandle::new(d);
                let strict_ = *strict;
                // (an id-less item is not addressed by its temporary id while other items may carry that string as public id)
                let res = if *by_id && !(self.tempid_ids && self.model.set(s).data[d].as_ref().unwrap().id.is_none()) {
                    step.labels.push("removal_by_id_strings");
                    let sid = self.model.set(s).id.clone();
                    let did = self.model.set(s).data[d].as_ref().unwrap().id.clone().unwrap_or_else(|| format!("!D{}", d));
                    catch(|| self.store.remove_data(sid.as_str(), did.as_str(), strict_))
                } else {
                    catch(|| self.store.remove_data(sh, dh, strict_))
                };
                let (doomed, modified) = self.model.remove_data(s, d, *strict);
                let had = !doomed.is_empty() || !modified.is_empty();
                self.finish_removal(&mut step, res, doomed, modified, had);
                step
            }
            Op::RemoveKey { set, pick: p, strict, by_id } => {
                let live = self.model.live_sets();
                if live.is_empty() {
                    return Step::skip("remove_key", "no dataset");
                }
                let s = live[pick(*set, live.len())];
                let ks = self.model.set(s).live_keys();
                if ks.is_empty() {
                    return Step::skip("remove_key", "no key");
                }
                let k = ks[pick(*p, ks.len())];
                let mut step = Step::new(if *strict { "remove_key_strict" } else { "remove_key_nonstrict" });
                if ks.len() > 1 {
                    step.labels.push("other_keys_present");
                }
                let sh = AnnotationDataSetHandle::new(s);
                let kh = DataKeyHandle::new(k);
                let strict_ = *strict;
                let res = if *by_id {
                    step.labels.push("removal_by_id_strings");
                    let sid = self.model.set(s).id.clone();
                    let kid = self.model.set(s).keys[k].clone().unwrap();
                    catch(|| self.store.remove_key(sid.as_str(), kid.as_str(), strict_))
                } else {
                    catch(|| self.store.remove_key(sh, kh, strict_))
                };
                let (doomed, modified) = self.model.remove_key(s, k, *strict);
                let had = !doomed.is_empty() || !modified.is_empty();
                self.finish_removal(&mut step, res, doomed, modified, had);
                step
            }
            Op::ProtectText { mode } => {
                let mut step = Step::new("protect_text");
                let m = match mode % 4 {
                    0 => TextValidationMode::Checksum,
                    1 => TextValidationMode::Text,
                    2 => TextValidationMode::Both,
                    _ => TextValidationMode::Auto,
                };
                let res = catch(|| self.store.protect_text(m));
                self.model_protect_text(mode % 4);
                match res {
                    Ok(Ok(())) => {}
                    Ok(Err(e)) => step.result = Err(format!("{}", e)),
                    Err(p) => step.panic = Some(p),
                }
                step
            }
        }
    }

    fn finish_add(&mut self, step: &mut Step, res: Result<Result<usize, StamError>, PanicInfo>, expected: usize) {
        match res {
            Ok(Ok(h)) => {
                if h != expected {
                    step.mismatch = Some(format!("{} returned handle {}, the model expects {}", step.kind, h, expected));
                }
            }
            Ok(Err(e)) => step.result = Err(format!("{}", e)),
            Err(p) => step.panic = Some(p),
        }
    }

    fn finish_removal(
        &mut self,
        step: &mut Step,
        res: Result<Result<(), StamError>, PanicInfo>,
        doomed: BTreeSet<usize>,
        modified: BTreeSet<usize>,
        had_dependents: bool,
    ) {
        match res {
            Ok(Ok(())) => {}
            Ok(Err(e)) => step.result = Err(format!("{}", e)),
            Err(p) => step.panic = Some(p),
        }
        step.removal = Some(RemovalInfo {
            doomed,
            modified,
            had_dependents,
            had_survivors: !self.model.live_anns().is_empty(),
        });
    }

    /// model of `protect_text` as documented in the text validation extension: every annotation that selects
    /// non-empty text gets a `checksum` (SHA-1 of the joined text) and/or `text` datum in the validation set,
    /// unless it already carries one.
    fn model_protect_text(&mut self, mode: u8) {
        let mut s = self.model.set_by_id(TEXTVALIDATION_SET);
        let mut checksums = vec![];
        let mut texts = vec![];
        for a in self.model.live_anns() {
            let ranges = self.model.text_ranges(a);
            let joined: String = ranges.iter().map(|r| self.model.slice(*r)).collect();
            let len: usize = ranges.iter().map(|r| r.2 - r.1).sum();
            let (do_checksum, do_text) = match mode {
                0 => (true, false),
                1 => (false, true),
                2 => (true, true),
                _ => {
                    if len < 40 {
                        (false, true)
                    } else {
                        (true, false)
                    }
                }
            };
            let has = |keyname: &str, model: &Model| -> bool {
                match s {
                    None => false,
                    Some(s) => match model.set(s).key_by_id(keyname) {
                        None => false,
                        Some(k) => model
                            .ann(a)
                            .data
                            .iter()
                            .any(|(ds, dd)| *ds == s && model.set(s).data[*dd].as_ref().map(|d| d.key) == Some(k)),
                    },
                }
            };
            if joined.is_empty() {
                continue;
            }
            if do_checksum && !has("checksum", &self.model) {
                checksums.push((a, sha1_hex(&joined)));
            }
            if do_text && !has("text", &self.model) {
                texts.push((a, joined));
            }
        }
        if s.is_none() {
            self.model.sets.push(Some(MSet {
                id: TEXTVALIDATION_SET.to_string(),
                keys: vec![],
                data: vec![],
            }));
            s = Some(self.model.sets.len() - 1);
        }
        let s = s.unwrap();
        for (a, c) in checksums {
            let (d, _) = self.model.sets[s].as_mut().unwrap().insert_data(None, "checksum", &Val::Str(c));
            self.model.anns[a].as_mut().unwrap().data.push((s, d));
        }
        for (a, t) in texts {
            let (d, _) = self.model.sets[s].as_mut().unwrap().insert_data(None, "text", &Val::Str(t));
            self.model.anns[a].as_mut().unwrap().data.push((s, d));
        }
    }
}

pub fn sha1_hex(s: &str) -> String {
    use sha1::{Digest, Sha1};
    let mut h = Sha1::new();
    h.update(s.as_bytes());
    let out = h.finalize();
    out.iter().map(|b| format!("{:02x}", b)).collect()
}
