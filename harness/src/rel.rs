//! Interval-arithmetic reference definitions of the text-selection relations (oracle for C13, C06, C08).
//! Written from the rustdoc of `TextSelectionOperator`; shares no code with stam.

use serde::{Deserialize, Serialize};
use stam::TextSelectionOperator;

pub type R = (usize, usize);

#[derive(Clone, Copy, Debug, PartialEq, Eq, Serialize, Deserialize, Hash, PartialOrd, Ord)]
pub enum Rel {
    Equals,
    Overlaps,
    Embeds,
    Embedded,
    Before,
    After,
    Precedes,
    Succeeds,
    SameBegin,
    SameEnd,
    InSet,
    SameRange,
}

pub const ALL_RELS: [Rel; 12] = [
    Rel::Equals,
    Rel::Overlaps,
    Rel::Embeds,
    Rel::Embedded,
    Rel::Before,
    Rel::After,
    Rel::Precedes,
    Rel::Succeeds,
    Rel::SameBegin,
    Rel::SameEnd,
    Rel::InSet,
    Rel::SameRange,
];

#[derive(Clone, Copy, Debug, PartialEq, Eq, Serialize, Deserialize, Hash)]
pub struct Op {
    pub rel: Rel,
    pub all: bool,
    pub negate: bool,
    /// only for Embedded, Before, After
    pub limit: Option<usize>,
    /// only for Precedes, Succeeds
    pub ws: bool,
}

impl Op {
    pub fn new(rel: Rel) -> Self {
        Op {
            rel,
            all: false,
            negate: false,
            limit: None,
            ws: false,
        }
    }
    pub fn to_stam(&self) -> TextSelectionOperator {
        let (all, negate) = (self.all, self.negate);
        match self.rel {
            Rel::Equals => TextSelectionOperator::Equals { all, negate },
            Rel::Overlaps => TextSelectionOperator::Overlaps { all, negate },
            Rel::Embeds => TextSelectionOperator::Embeds { all, negate },
            Rel::Embedded => TextSelectionOperator::Embedded {
                all,
                negate,
                limit: self.limit,
            },
            Rel::Before => TextSelectionOperator::Before {
                all,
                negate,
                limit: self.limit,
            },
            Rel::After => TextSelectionOperator::After {
                all,
                negate,
                limit: self.limit,
            },
            Rel::Precedes => TextSelectionOperator::Precedes {
                all,
                negate,
                allow_whitespace: self.ws,
            },
            Rel::Succeeds => TextSelectionOperator::Succeeds {
                all,
                negate,
                allow_whitespace: self.ws,
            },
            Rel::SameBegin => TextSelectionOperator::SameBegin { all, negate },
            Rel::SameEnd => TextSelectionOperator::SameEnd { all, negate },
            Rel::InSet => TextSelectionOperator::InSet { all, negate },
            Rel::SameRange => TextSelectionOperator::SameRange { all, negate },
        }
    }
    pub fn has_limit(&self) -> bool {
        matches!(self.rel, Rel::Embedded | Rel::Before | Rel::After)
    }
    pub fn has_ws(&self) -> bool {
        matches!(self.rel, Rel::Precedes | Rel::Succeeds)
    }
    pub fn sig(&self) -> String {
        let mut s = format!("{:?}|all={}|neg={}", self.rel, self.all as u8, self.negate as u8);
        if self.has_limit() {
            match self.limit {
                Some(_) => s.push_str("|limit"),
                None => s.push_str("|nolimit"),
            }
        }
        if self.has_ws() {
            s.push_str(if self.ws { "|ws" } else { "|exact" });
        }
        s
    }
    /// the converse relation (a OP b  <=>  b OP' a), if one exists
    pub fn converse(&self) -> Option<Op> {
        let rel = match self.rel {
            Rel::Embeds => Rel::Embedded,
            Rel::Embedded => Rel::Embeds,
            Rel::Before => Rel::After,
            Rel::After => Rel::Before,
            Rel::Precedes => Rel::Succeeds,
            Rel::Succeeds => Rel::Precedes,
            Rel::Equals | Rel::Overlaps | Rel::SameBegin | Rel::SameEnd | Rel::SameRange => self.rel,
            Rel::InSet => return None,
        };
        // Embeds carries no limit: the converse of a limited Embedded has no counterpart
        if self.rel == Rel::Embedded && self.limit.is_some() {
            return None;
        }
        Some(Op { rel, ..*self })
    }
}

/// every operator/modifier combination (limits from `limits`)
pub fn all_ops(limits: &[Option<usize>]) -> Vec<Op> {
    let mut v = vec![];
    for rel in ALL_RELS {
        for all in [false, true] {
            for negate in [false, true] {
                let base = Op {
                    rel,
                    all,
                    negate,
                    limit: None,
                    ws: false,
                };
                if base.has_limit() {
                    for l in limits {
                        v.push(Op { limit: *l, ..base });
                    }
                } else if base.has_ws() {
                    v.push(Op { ws: false, ..base });
                    v.push(Op { ws: true, ..base });
                } else {
                    v.push(base);
                }
            }
        }
    }
    v
}

fn gap_is_ws(text: &[char], from: usize, to: usize) -> bool {
    text[from..to].iter().all(|c| c.is_whitespace())
}

/// Three-valued pairwise definition of the *positive* relation `a REL b`; None = documented fuzzy zone.
pub fn pair_pos(op: &Op, a: R, b: R, text: &[char]) -> Option<bool> {
    Some(match op.rel {
        Rel::Equals | Rel::InSet | Rel::SameRange => a == b,
        Rel::Overlaps => {
            if a.0 == a.1 || b.0 == b.1 {
                // zero-width operands: an empty range shares no character with anything, yet the
                // documentation does not say whether "position inside" counts: don't care
                return None;
            }
            a.0 < b.1 && b.0 < a.1
        }
        Rel::Embeds => b.0 >= a.0 && b.1 <= a.1,
        Rel::Embedded => {
            a.0 >= b.0
                && a.1 <= b.1
                && match op.limit {
                    Some(l) => a.0 - b.0 <= l && b.1 - a.1 <= l,
                    None => true,
                }
        }
        Rel::Before => {
            a.1 <= b.0
                && match op.limit {
                    Some(l) => b.0 - a.1 <= l,
                    None => true,
                }
        }
        Rel::After => {
            a.0 >= b.1
                && match op.limit {
                    Some(l) => a.0 - b.1 <= l,
                    None => true,
                }
        }
        Rel::Precedes => {
            if a.1 == b.0 {
                true
            } else if op.ws && a.1 < b.0 {
                gap_is_ws(text, a.1, b.0)
            } else {
                false
            }
        }
        Rel::Succeeds => {
            if b.1 == a.0 {
                true
            } else if op.ws && b.1 < a.0 {
                gap_is_ws(text, b.1, a.0)
            } else {
                false
            }
        }
        Rel::SameBegin => a.0 == b.0,
        Rel::SameEnd => a.1 == b.1,
    })
}

/// pairwise including negation
pub fn pair(op: &Op, a: R, b: R, text: &[char]) -> Option<bool> {
    pair_pos(op, a, b, text).map(|x| x != op.negate)
}

fn and3(it: impl Iterator<Item = Option<bool>>) -> Option<bool> {
    let mut unknown = false;
    for x in it {
        match x {
            Some(false) => return Some(false),
            None => unknown = true,
            Some(true) => {}
        }
    }
    if unknown {
        None
    } else {
        Some(true)
    }
}
fn or3(it: impl Iterator<Item = Option<bool>>) -> Option<bool> {
    let mut unknown = false;
    for x in it {
        match x {
            Some(true) => return Some(true),
            None => unknown = true,
            Some(false) => {}
        }
    }
    if unknown {
        None
    } else {
        Some(false)
    }
}

/// Set-level definition `A OP B` for non-empty, duplicate-free sets, documented quantifier shapes:
/// * without `all`: every a in A relates to some b in B (Equals additionally: same cardinality;
///   Embeds, as documented: every b in B is embedded by some a in A)
/// * with `all`: Overlaps/Embeds/Embedded: every a with every b; Before/After: everything in A before/after
///   everything in B; Precedes: the rightmost end of A meets the leftmost begin of B; Succeeds: mirror;
///   SameBegin/SameEnd/SameRange: leftmost begins / rightmost ends coincide.
/// `embeds_as_implemented`: use the implemented shape (forall a exists b) for Embeds instead of the documented one.
pub fn sets(op: &Op, a: &[R], b: &[R], text: &[char], embeds_documented: bool) -> Option<bool> {
    assert!(!a.is_empty() && !b.is_empty());
    let pos = Op { negate: false, ..*op };
    let min_ab = a.iter().map(|x| x.0).min().unwrap();
    let max_ae = a.iter().map(|x| x.1).max().unwrap();
    let min_bb = b.iter().map(|x| x.0).min().unwrap();
    let max_be = b.iter().map(|x| x.1).max().unwrap();
    let r: Option<bool> = if !op.all {
        match op.rel {
            Rel::Equals => {
                if a.len() != b.len() {
                    Some(false)
                } else {
                    Some(a.iter().all(|x| b.contains(x)))
                }
            }
            Rel::SameRange => Some(min_ab == min_bb && max_ae == max_be),
            Rel::Embeds if embeds_documented => and3(
                b.iter()
                    .map(|y| or3(a.iter().map(|x| pair_pos(&pos, *x, *y, text)))),
            ),
            _ => and3(
                a.iter()
                    .map(|x| or3(b.iter().map(|y| pair_pos(&pos, *x, *y, text)))),
            ),
        }
    } else {
        match op.rel {
            Rel::Equals => {
                // "fairly useless": both sets contain only one selection and it is the same one
                if a.len() == 1 && b.len() == 1 {
                    Some(a[0] == b[0])
                } else {
                    None
                }
            }
            Rel::InSet => {
                if a.len() == 1 && b.len() == 1 {
                    Some(a[0] == b[0])
                } else {
                    None
                }
            }
            Rel::Overlaps | Rel::Embeds | Rel::Embedded => and3(
                a.iter()
                    .flat_map(|x| b.iter().map(move |y| (x, y)))
                    .map(|(x, y)| pair_pos(&pos, *x, *y, text)),
            ),
            Rel::Before => {
                // everything in A before everything in B; limit measured from the rightmost end of A
                if max_ae <= min_bb {
                    match op.limit {
                        None => Some(true),
                        Some(l) => {
                            if a.len() == 1 {
                                Some(b.iter().all(|y| y.0 - max_ae <= l))
                            } else if b.iter().all(|y| a.iter().all(|x| y.0 - x.1 <= l)) {
                                Some(true)
                            } else if b.iter().any(|y| y.0 - max_ae > l) {
                                Some(false)
                            } else {
                                None
                            }
                        }
                    }
                } else {
                    Some(false)
                }
            }
            Rel::After => {
                if min_ab >= max_be {
                    match op.limit {
                        None => Some(true),
                        Some(l) => {
                            if a.len() == 1 {
                                Some(b.iter().all(|y| min_ab - y.1 <= l))
                            } else if b.iter().all(|y| a.iter().all(|x| x.0 - y.1 <= l)) {
                                Some(true)
                            } else if b.iter().any(|y| min_ab - y.1 > l) {
                                Some(false)
                            } else {
                                None
                            }
                        }
                    }
                } else {
                    Some(false)
                }
            }
            Rel::Precedes => pair_pos(&pos, (max_ae, max_ae), (min_bb, min_bb), text),
            Rel::Succeeds => pair_pos(&pos, (min_ab, min_ab), (max_be, max_be), text),
            Rel::SameBegin => Some(min_ab == min_bb),
            Rel::SameEnd => Some(max_ae == max_be),
            Rel::SameRange => Some(min_ab == min_bb && max_ae == max_be),
        }
    };
    r.map(|x| x != op.negate)
}
