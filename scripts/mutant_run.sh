#!/bin/bash
# Run checks against /repo HEAD + a patch, in a scratch workspace (never touches /repo's working tree).
# usage: scripts/mutant_run.sh [-w <wsname>] <patch.diff> <Cxx> [<Cxx> ...]     (env MUT_ARGS: extra args for check, default "--tier quick")
# prints one line per check: "<Cxx> exit=<code> <last line of output>"
WSN=mut
if [ "$1" = "-w" ]; then WSN="$2"; shift 2; fi
PATCH="$(readlink -f "$1")"; shift
WS=/tmp/ws-$WSN
/verif/scripts/agent_ws.sh $WSN >/dev/null || exit 2
HEAD=$(git -C /repo rev-parse ${MUT_BASE:-HEAD})
git -C $WS/repo reset -q --hard 2>/dev/null
git -C $WS/repo clean -qfd 2>/dev/null
git -C $WS/repo checkout -q --detach $HEAD || exit 2
# uncommitted hook/fix work in /repo is not copied: mutants are evaluated against the committed tree
if ! git -C $WS/repo apply "$PATCH" 2>/tmp/mut-apply-$WSN.log; then
  if ! git -C $WS/repo apply --3way "$PATCH" 2>>/tmp/mut-apply-$WSN.log; then echo "PATCH DOES NOT APPLY"; cat /tmp/mut-apply-$WSN.log | head -5; exit 3; fi
fi
rsync -a /verif/known_findings.txt $WS/verifroot/ ; rsync -a --delete /verif/findings/ $WS/verifroot/findings/
rm -f $WS/verifroot/known_findings.d/*.txt; [ -d /verif/known_findings.d ] && rsync -a /verif/known_findings.d/ $WS/verifroot/known_findings.d/
if ! $WS/run.sh --build-only; then echo "BUILD FAILED"; exit 4; fi
ARGS=${MUT_ARGS:---tier quick}
for P in "$@"; do
  VERIF_ROOT=$WS/verifroot $WS/harness/target/release/check $P $ARGS --no-evidence >/tmp/mut-out-$WSN.log 2>/dev/null; CODE=$?
  echo "$P exit=$CODE $(grep -v '^KNOWN-FINDING' /tmp/mut-out-$WSN.log | tail -2 | tr '\n' ' ' | cut -c1-300)"
done
git -C $WS/repo checkout -q -- . ; git -C $WS/repo clean -qfd
