#!/bin/bash
# run every registered check once (quick by default) and summarise; usage: scripts/run_all.sh [quick|thorough]
TIER=${1:-quick}
cd "$(dirname "$0")/.."
for p in $(python3 -c "import json; print(' '.join(c['property_id'] for c in json.load(open('MANIFEST.json'))['checks']))"); do
  s=$(date +%s); out=$(scripts/check.sh $p --tier $TIER 2>/dev/null); code=$?; e=$(date +%s)
  echo "$p exit=$code $((e-s))s $(echo "$out" | grep -v '^KNOWN-FINDING' | tail -1 | cut -c1-220)"
done
