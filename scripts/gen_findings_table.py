#!/usr/bin/env python3
"""Prints a markdown table of known_findings.txt (fixed/known per property) for DESIGN.md §6b."""
import re,subprocess,collections
rows=collections.defaultdict(list)
for l in open('/verif/known_findings.txt'):
    l=l.strip()
    if not (l.startswith('known:') or l.startswith('fixed:')): continue
    kind,rest=l.split(':',1)
    head=rest.split(' | ')[0].strip()
    m=re.match(r'property=(C\d+) (.*)',head)
    pid,what=m.group(1),m.group(2)
    sha=''
    if kind=='fixed':
        sha,what=what.split(' ',1)
    sig=re.search(r'signature=(\S+)',l)
    rows[pid].append((kind,sha,what,sig.group(1) if sig else ''))
print('| property | disposition | commit | what failed (witness in findings/<id>/) |')
print('|---|---|---|---|')
for pid in sorted(rows):
    for kind,sha,what,sig in rows[pid]:
        w=what.replace('|','\\|')
        if len(w)>230: w=w[:227]+'...'
        disp = kind if kind == 'fixed' else kind + ' (' + sig.replace('|', '\\|') + ')'
        print('| %s | %s | %s | %s |' % (pid, disp, sha, w))
