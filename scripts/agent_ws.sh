#!/bin/bash
# Create (or refresh) a private workspace for developing one check without disturbing /repo or /verif/harness.
# usage: scripts/agent_ws.sh <name>        -> /tmp/ws-<name>/{repo,harness}; prints the paths
# The workspace harness depends on the workspace repo (a git worktree of /repo HEAD, detached),
# has its own target dir, and resolves VERIF_ROOT to /tmp/ws-<name>/verifroot (a private copy of
# known_findings*, findings/, with its own evidence/ and replays/).
set -e
NAME="$1"; [ -n "$NAME" ] || { echo "usage: $0 <name>"; exit 2; }
WS=/tmp/ws-$NAME
mkdir -p $WS
if [ ! -d $WS/repo ]; then
  git -C /repo worktree add --detach $WS/repo HEAD >/dev/null 2>&1
fi
mkdir -p $WS/harness $WS/verifroot
rsync -a --exclude target --exclude build.log /verif/harness/ $WS/harness/
sed -i "s#path = \"/repo\"#path = \"$WS/repo\"#" $WS/harness/Cargo.toml
rsync -a /verif/known_findings.txt /verif/properties.jsonl $WS/verifroot/
mkdir -p $WS/verifroot/known_findings.d $WS/verifroot/findings $WS/verifroot/evidence $WS/verifroot/replays
rsync -a /verif/findings/ $WS/verifroot/findings/
[ -d /verif/known_findings.d ] && rsync -a /verif/known_findings.d/ $WS/verifroot/known_findings.d/ || true
cat > $WS/run.sh <<EOS
#!/bin/bash
# build the workspace harness and run a check: $WS/run.sh Cxx --tier quick [...]
export VERIF_ROOT=$WS/verifroot CARGO_NET_OFFLINE=true RUSTFLAGS="--cfg stam_verif"
cd $WS/harness && cargo build --release --offline 2>$WS/build.log >/dev/null || { grep -E "^error" -A12 $WS/build.log | head -80; exit 2; }
[ "\$1" = "--build-only" ] && exit 0
exec $WS/harness/target/release/check "\$@"
EOS
chmod +x $WS/run.sh
echo "workspace: $WS  (repo: $WS/repo, harness: $WS/harness, run: $WS/run.sh, verif root: $WS/verifroot)"
