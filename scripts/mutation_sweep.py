#!/usr/bin/env python3
"""Automated mutation sweep (sensitivity measurement; not a registered check).

Generates single-token mutants of stam source files, and for each one, in a scratch workspace (worktree of /repo HEAD +
copy of the harness): builds, runs the quick checks mapped to the mutated file (reduced case count) until one exits 1,
and - only for mutants no check kills - runs the pinned test suite. A mutant that survives both is written to
<out>/survivors/<id>.diff for manual triage (equivalent mutant, outside every property, or a gap in a check).

usage: scripts/mutation_sweep.py --out /verif/mutation/run1 --n 60 --workers 4 --seed 1 [--files src/a.rs,src/b.rs] [--frac 0.25]
"""
import argparse, os, random, re, subprocess, sys, json, time, hashlib, threading, queue, shutil

FILEMAP = {
    "src/store.rs": ["C01", "C02", "C03", "C14", "C11"],
    "src/annotationstore.rs": ["C01", "C02", "C03", "C05", "C14"],
    "src/annotation.rs": ["C01", "C02", "C05", "C14"],
    "src/annotationdataset.rs": ["C10", "C02", "C03", "C05"],
    "src/annotationdata.rs": ["C10", "C05", "C01"],
    "src/datakey.rs": ["C10", "C01", "C02"],
    "src/datavalue.rs": ["C10", "C09", "C05", "C17"],
    "src/resources.rs": ["C12", "C04", "C06", "C07", "C01"],
    "src/textselection.rs": ["C13", "C06", "C04", "C01", "C07"],
    "src/text.rs": ["C07", "C12", "C04"],
    "src/api/text.rs": ["C07", "C12", "C04"],
    "src/selector.rs": ["C01", "C05", "C04", "C15", "C11"],
    "src/api/query.rs": ["C08", "C09", "C06"],
    "src/api.rs": ["C08", "C01"],
    "src/api/annotation.rs": ["C01", "C08", "C06", "C02"],
    "src/api/annotationdata.rs": ["C01", "C08", "C10"],
    "src/api/annotationdataset.rs": ["C10", "C08", "C01"],
    "src/api/datakey.rs": ["C01", "C08", "C10"],
    "src/api/resources.rs": ["C01", "C07", "C06", "C08"],
    "src/api/textselection.rs": ["C06", "C01", "C13", "C08"],
    "src/api/annotationstore.rs": ["C08", "C03", "C07", "C10"],
    "src/api/transpose.rs": ["C16"],
    "src/api/webanno.rs": ["C17"],
    "src/textvalidation.rs": ["C18"],
    "src/csv.rs": ["C15", "C18"],
    "src/cbor.rs": ["C11"],
    "src/json.rs": ["C05", "C20"],
    "src/file.rs": ["C05", "C20", "C15"],
    "src/config.rs": ["C20", "C12", "C05"],
    "src/types.rs": ["C04", "C05", "C15", "C09"],
}

OPS = [
    (r" <= ", " < "), (r" < ", " <= "), (r" >= ", " > "), (r" > ", " >= "),
    (r" == ", " != "), (r" != ", " == "), (r" && ", " || "), (r" \|\| ", " && "),
    (r" \+ 1\b", ""), (r" - 1\b", ""), (r" \+ 1\b", " + 2"), (r" - 1\b", " + 1"),
    (r"\btrue\b", "false"), (r"\bfalse\b", "true"),
    (r"\.min\(", ".max("), (r"\.max\(", ".min("),
    (r"\bIncluded\(", "Excluded("), (r"\bExcluded\(", "Included("),
    (r"\bcontinue;", "break;"), (r"\bbreak;", "continue;"),
    (r"if !", "if "), (r"\.is_some\(\)", ".is_none()"), (r"\.is_none\(\)", ".is_some()"),
    (r"\.is_empty\(\)", ".len() == 1"), (r" \+= ", " -= "), (r" -= ", " += "),
    (r"\.begin\(\)", ".end()"), (r"\.end\(\)", ".begin()"),
    (r"\bsort_unstable\(\);", "reverse();"), (r"\.dedup\(\);", ".len();"),
    (r"\.saturating_sub\(", ".saturating_add("), (r"\.skip\(1\)", ".skip(0)"),
    (r"\.first\(\)", ".last()"), (r"\.last\(\)", ".first()"),
]
SKIP_LINE = re.compile(r"^\s*(//|#\[|///|\*|use |pub use |mod |pub mod )|debug\(|format!|assert|expect\(|unreachable|panic!|eprintln|println|todo!|impl<|fn .*<.*>|where |-> |: &|<'|Vec<|Option<|Result<|Box<|Cow<|=> \{?$")


def candidates(root, files, rng):
    out = []
    for f in files:
        p = os.path.join(root, f)
        if not os.path.exists(p):
            continue
        lines = open(p).read().split("\n")
        in_test = False
        for i, line in enumerate(lines):
            if "#[cfg(test)]" in line:
                in_test = True
            if in_test:
                continue
            if SKIP_LINE.search(line):
                continue
            for k, (pat, rep) in enumerate(OPS):
                for m in re.finditer(pat, line):
                    out.append((f, i, m.start(), m.end(), rep, k))
    rng.shuffle(out)
    return out


def make_patch(root, cand):
    f, i, a, b, rep, k = cand
    p = os.path.join(root, f)
    lines = open(p).read().split("\n")
    old = lines[i]
    new = old[:a] + rep + old[b:]
    return f, i, old, new


def sh(cmd, cwd=None, env=None, timeout=3600):
    try:
        r = subprocess.run(cmd, shell=True, cwd=cwd, env=env, capture_output=True, text=True, timeout=timeout)
        return r.returncode, r.stdout + r.stderr
    except subprocess.TimeoutExpired:
        return 124, "timeout"


def worker(wid, q, results, args, lock):
    ws = f"/tmp/ws-msw{wid}"
    rc, out = sh(f"/verif/scripts/agent_ws.sh msw{wid}")
    if rc != 0:
        print("workspace failed", out)
        return
    head = subprocess.run("git -C /repo rev-parse HEAD", shell=True, capture_output=True, text=True).stdout.strip()
    sh(f"git -C {ws}/repo checkout -q -- . ; git -C {ws}/repo clean -qfd; git -C {ws}/repo checkout -q --detach {head}")
    env = dict(os.environ, VERIF_ROOT=f"{ws}/verifroot", CARGO_NET_OFFLINE="true", RUSTFLAGS="--cfg stam_verif")
    while True:
        try:
            mid, cand = q.get_nowait()
        except queue.Empty:
            break
        f, i, old, new = make_patch(f"{ws}/repo", cand)
        p = os.path.join(ws, "repo", f)
        lines = open(p).read().split("\n")
        lines[i] = new
        open(p, "w").write("\n".join(lines))
        rec = {"id": mid, "file": f, "line": i + 1, "old": old.strip(), "new": new.strip(), "status": None, "killed_by": None, "t": 0}
        t0 = time.time()
        rc, out = sh("cargo build --release --offline", cwd=f"{ws}/harness", env=env, timeout=1200)
        if rc != 0:
            rec["status"] = "uncompilable"
        else:
            killed = None
            inconclusive = []
            for c in FILEMAP.get(f, []):
                rc, out = sh(f"{ws}/harness/target/release/check {c} --tier quick --frac {args.frac} --no-evidence", env=env, timeout=1500)
                if rc == 1:
                    killed = c
                    m = re.findall(r"failure facet=(\S+) signature=(\S+)", out)
                    rec["detail"] = (m[0] if m else ("witness", re.findall(r"regression of fixed finding: (\S+)", out)[:1]))
                    break
                if rc not in (0, 1):
                    inconclusive.append((c, rc))
            rec["inconclusive"] = inconclusive
            if killed:
                rec["status"] = "killed"
                rec["killed_by"] = killed
            else:
                rc, out = sh("cargo test --offline --no-fail-fast 2>&1 | grep -E '^test .* FAILED|^error' | grep -v test_write_include | head -5", cwd=f"{ws}/repo", timeout=1500)
                if out.strip():
                    rec["status"] = "killed_by_pinned_tests"
                    rec["detail"] = out.strip().split("\n")[:3]
                else:
                    rec["status"] = "SURVIVED"
                    d = subprocess.run(f"git -C {ws}/repo diff", shell=True, capture_output=True, text=True).stdout
                    os.makedirs(f"{args.out}/survivors", exist_ok=True)
                    open(f"{args.out}/survivors/{mid}.diff", "w").write(d)
        rec["t"] = round(time.time() - t0)
        sh(f"git -C {ws}/repo checkout -q -- .")
        with lock:
            results.append(rec)
            open(f"{args.out}/results.jsonl", "a").write(json.dumps(rec) + "\n")
            print(f"[{len(results)}] {rec['id']} {rec['file']}:{rec['line']} {rec['status']} {rec.get('killed_by') or ''} ({rec['t']}s)  {rec['old'][:60]!r} -> {rec['new'][:60]!r}", flush=True)
    sh(f"git -C /repo worktree remove --force {ws}/repo; rm -rf {ws}")


def main():
    ap = argparse.ArgumentParser()
    ap.add_argument("--out", required=True)
    ap.add_argument("--n", type=int, default=40)
    ap.add_argument("--workers", type=int, default=4)
    ap.add_argument("--seed", type=int, default=1)
    ap.add_argument("--files", default="")
    ap.add_argument("--frac", type=float, default=0.25)
    args = ap.parse_args()
    os.makedirs(args.out, exist_ok=True)
    rng = random.Random(args.seed)
    files = [f for f in args.files.split(",") if f] or list(FILEMAP)
    cands = candidates("/repo", files, rng)
    # spread over files: round-robin by file
    byfile = {}
    for c in cands:
        byfile.setdefault(c[0], []).append(c)
    picked = []
    while len(picked) < args.n and any(byfile.values()):
        for f in list(byfile):
            if byfile[f] and len(picked) < args.n:
                picked.append(byfile[f].pop())
    q = queue.Queue()
    for k, c in enumerate(picked):
        mid = f"m{args.seed}-{k:03d}"
        q.put((mid, c))
    results, lock = [], threading.Lock()
    ts = [threading.Thread(target=worker, args=(w, q, results, args, lock)) for w in range(args.workers)]
    for t in ts:
        t.start()
    for t in ts:
        t.join()
    from collections import Counter
    c = Counter(r["status"] for r in results)
    print("SUMMARY", dict(c))
    open(f"{args.out}/summary.json", "w").write(json.dumps({"counts": dict(c), "n": len(results)}, indent=1))


if __name__ == "__main__":
    main()
