#!/bin/bash
# Thorough tier of C19: the generated-mutation search at thorough size, then three coverage-guided libFuzzer
# campaigns (JSON, CSV, CBOR; oracle inside the target, seed corpus = valid documents written by the harness),
# run side by side. exit: 1 if any part reports a violation, else 2 if any part is inconclusive, else 0.
# usage: scripts/c19_thorough.sh [runs per campaign, default 150000]
ROOT="$(cd "$(dirname "$0")/.." && pwd)"; cd "$ROOT"
RUNS="${1:-150000}"; SEED="${VERIF_SEED:-20260926}"
scripts/check.sh C19 --tier thorough; RC0=$?
[ $RC0 -eq 1 ] && exit 1
LOGD="$(mktemp -d "${VERIF_TMP:-/tmp}/c19thorough.XXXXXX")"; trap 'rm -rf "$LOGD"' EXIT
# build once (the three campaigns share the fuzz crate's target directory), then run in parallel
scripts/fuzz_c19.sh c19_json 1 "$SEED" > "$LOGD/build.log" 2>&1; RCB=$?
if [ $RCB -eq 2 ] && grep -q "could not be built" "$LOGD/build.log"; then
  cat "$LOGD/build.log"; echo "INCONCLUSIVE property=C19 fuzz campaigns skipped (targets could not be built); the generated-mutation search above stands on its own"
  [ $RC0 -ne 0 ] && exit $RC0; exit 2
fi
for T in c19_json c19_csv c19_cbor; do scripts/fuzz_c19.sh $T "$RUNS" "$SEED" > "$LOGD/$T.log" 2>&1 & done
wait
RC=$RC0; FUZZ="[]"
for T in c19_json c19_csv c19_cbor; do
  cat "$LOGD/$T.log"
  if grep -q "^VIOLATION" "$LOGD/$T.log"; then RC=1; fi
  if grep -q "^INCONCLUSIVE" "$LOGD/$T.log" && [ $RC -eq 0 ]; then RC=2; fi
  L=$(grep "^OK property=C19 fuzz" "$LOGD/$T.log" | tail -1)
  if [ -n "$L" ]; then
    R=$(echo "$L" | sed -E 's/.* runs=([0-9]+).*/\1/'); C=$(echo "$L" | sed -E 's/.*coverage_edges=([0-9?]+).*/\1/'); N=$(echo "$L" | sed -E 's/.*seed_corpus=([0-9]+).*/\1/')
    FUZZ=$(echo "$FUZZ" | jq -c --arg t "$T" --arg r "$R" --arg c "$C" --arg n "$N" --arg s "$SEED" '. + [{target:$t, engine:"libFuzzer (cargo-fuzz, ASan, debug assertions)", executions:($r|tonumber), seed:($s|tonumber), seed_corpus_files:($n|tonumber), coverage_edges:$c, result:"no crash, no oracle failure"}]')
  fi
done
# record the campaigns in the evidence file the thorough run just wrote
if [ -f evidence/C19.json ]; then
  jq --argjson f "$FUZZ" '.coverage.fuzz_campaigns = $f' evidence/C19.json > "$LOGD/ev.json" && cp "$LOGD/ev.json" evidence/C19.json
fi
exit $RC
