#!/bin/bash
# Apply proposed fix diffs of one property to /repo as individual "fix:" commits and fill in the shas.
# usage: scripts/apply_fixes.sh C17
P="$1"; cd /repo || exit 2
for d in $(ls /verif/proposed_fixes/$P-*.diff | sort); do
  base=${d%.diff}; tag=$(basename $base | sed -E 's/^(C[0-9]+-[0-9]+).*/\1/')
  if git log --format=%B | grep -q "verif-fix-id: $(basename $base)"; then echo "already applied: $d"; continue; fi
  if ! git apply --check "$d" 2>/dev/null; then
    if ! git apply --3way --check "$d" 2>/dev/null; then echo "DOES NOT APPLY: $d"; git apply --check "$d"; exit 1; fi
  fi
  git apply "$d" 2>/dev/null || git apply --3way "$d" || exit 1
  if ! cargo build --offline 2>/tmp/applyfix.log >/dev/null; then echo "BUILD FAILS after $d"; grep -E "^error" -A8 /tmp/applyfix.log | head -30; git checkout -- .; exit 1; fi
  msg="$base.msg"
  { grep -v "^Found by verification" "$msg"; echo; echo "verif-fix-id: $(basename $base)"; } > /tmp/applyfix.msg
  git commit -qa -F /tmp/applyfix.msg || exit 1
  sha=$(git log --format=%h -1)
  echo "applied $d as $sha"
  for f in /verif/known_findings.d/$P.txt /verif/known_findings.d/*.txt; do
    [ -f "$f" ] && sed -i "s/proposed:$tag /$sha /g; s#proposed_fixes/$(basename $base) #$sha #g" "$f"
  done
done
