#!/bin/bash
# second stage of the mutation sweep: run every survivor diff against ALL checks (reduced case count)
# usage: scripts/mutation_stage2.sh <run dir> [frac]
RUN="$(readlink -f "$1")"; FRAC="${2:-0.25}"
ALL=$(jq -r '.checks[].property_id' /verif/MANIFEST.json | sort -u | tr '\n' ' ')
: > "$RUN/stage2.txt"
for d in $(ls "$RUN"/survivors/*.diff | sort); do
  id=$(basename $d .diff)
  res=$(MUT_ARGS="--tier quick --frac $FRAC" /verif/scripts/mutant_run.sh -w msw2 "$d" $ALL 2>&1 | grep -E "^C[0-9]+ exit=" )
  killers=$(echo "$res" | grep "exit=1" | sed -E 's/^(C[0-9]+) exit=1 *(.{0,140}).*/\1[\2]/' | tr '\n' ' ')
  odd=$(echo "$res" | grep -v "exit=[01]" | cut -c1-40 | tr '\n' ' ')
  echo "$id killers: ${killers:-NONE} ${odd:+odd: $odd}" | tee -a "$RUN/stage2.txt"
done
git -C /repo worktree remove --force /tmp/ws-msw2/repo 2>/dev/null; rm -rf /tmp/ws-msw2
