#!/bin/bash
# copy evaluated seeds from /tmp/mutant-Cxx/out/N into /verif/seeded/Cxx-N and rebuild seeded/SUMMARY.md
cd /verif; mkdir -p seeded
for d in /tmp/mutant-C*/out/*; do
  [ -f $d/eval.txt ] || continue
  P=$(basename $(dirname $(dirname $d)) | sed 's/mutant-//'); N=$(basename $d)
  mkdir -p seeded/$P-$N
  cp $d/patch.diff $d/demo.rs $d/meta.json $d/eval.txt seeded/$P-$N/ 2>/dev/null; cp $d/reeval.txt seeded/$P-$N/ 2>/dev/null
done
python3 - <<'PY'
import glob,os,json,re
rows=[]
for d in sorted(glob.glob('/verif/seeded/C*-*')):
    sid=os.path.basename(d)
    try: meta=json.load(open(d+'/meta.json'))
    except Exception: meta={}
    ev=open(d+'/eval.txt',errors='replace').read() if os.path.exists(d+'/eval.txt') else ''
    extra=open(d+'/reeval.txt',errors='replace').read() if os.path.exists(d+'/reeval.txt') else ''
    demo0=re.search(r'demo on HEAD: exit=(\d+)',ev); demo1=re.search(r'demo with patch: exit=(\d+)',ev)
    suite=re.search(r'failing tests other than the flaky one: \[(.*)\]',ev)
    checks=re.findall(r'check (C\d+) exit=(\d+)',ev)
    rechecks=re.findall(r'(C\d+) exit=(\d+)',extra)
    caught=[c for c,e in checks if e=='1']; missed=[c for c,e in checks if e=='0']
    later=[c for c,e in rechecks if e=='1']
    rows.append((sid, meta.get('title','')[:90], demo0.group(1) if demo0 else '?', demo1.group(1) if demo1 else '?', 'ok' if suite and not suite.group(1).strip() else ('see eval.txt' if suite else '?'), ','.join(caught) or '-', ','.join(m for m in missed if m not in later) or '-', ','.join(later) or '-'))
with open('/verif/seeded/SUMMARY.md','w') as f:
    f.write('# Independently seeded changes and which checks catch them\n\nEach directory: patch.diff (the change), demo.rs (fails with the change, passes without), meta.json (what it breaks / needs), eval.txt (scripts/seed_eval.sh output: demo on HEAD, demo with patch, pinned suite with patch, quick checks against HEAD+patch), reeval.txt (re-run after a check was strengthened).\n\n')
    f.write('| seed | title | demo on HEAD | demo with patch | pinned suite with patch | caught by (quick) | not caught by | caught after strengthening |\n|---|---|---|---|---|---|---|---|\n')
    for r in rows: f.write('| '+' | '.join(r)+' |\n')
print(len(rows),'seeds')
PY
