#!/usr/bin/env python3
"""Refreshes the generated tables in DESIGN.md: §6b (findings) and §7b (seeded changes, self-test patches)."""
import subprocess,re,os,glob
p='/verif/DESIGN.md'
s=open(p).read()
def put(marker,body):
    global s
    b='<!-- BEGIN %s -->'%marker; e='<!-- END %s -->'%marker
    block=b+'\n'+body.rstrip()+'\n'+e
    if b in s:
        s=s[:s.index(b)]+block+s[s.index(e)+len(e):]
    else:
        raise SystemExit('marker %s missing'%marker)
findings=subprocess.run(['python3','/verif/scripts/gen_findings_table.py'],capture_output=True,text=True).stdout
nfix=subprocess.run("git -C /repo log --oneline | grep -c 'fix:'",shell=True,capture_output=True,text=True).stdout.strip()
put('FINDINGS', "%s `fix:` commits in /repo (one root cause each; several have more than one witness line below).\n\n"%nfix+findings)
seeded=open('/verif/seeded/SUMMARY.md').read().split('\n\n',2)[-1] if os.path.exists('/verif/seeded/SUMMARY.md') else '(none yet)'
put('SEEDED', seeded)
st=''
if os.path.exists('/verif/selftest/RESULTS.md'):
    st=open('/verif/selftest/RESULTS.md').read()
put('SELFTEST', st or '(see selftest/RESULTS.md)')
open(p,'w').write(s)
print('ok')
