#!/bin/bash
# Build the harness against /repo's current working tree (hooks on) and run one check.
# usage: scripts/check.sh <Cxx> --tier quick|thorough [...]   |   scripts/check.sh --build-only
# exit: 0 held, 1 violation, 2 inconclusive / infrastructure problem
ROOT="$(cd "$(dirname "$0")/.." && pwd)"
export VERIF_ROOT="$ROOT"
export CARGO_NET_OFFLINE=true
export RUSTFLAGS="--cfg stam_verif"
cd "$ROOT/harness" || exit 2
LOG="$ROOT/harness/build.log"
if ! cargo build --release --offline >"$LOG" 2>&1; then
  echo "ERROR harness build failed (see $LOG)"
  grep -E "^error" -A8 "$LOG" | head -60
  exit 2
fi
if [ "$1" = "--build-only" ]; then
  echo "build ok"
  exit 0
fi
# the library prints warnings with eprintln! on invalid requests (millions of lines during a run): drop them unless asked
if [ -n "$VERIF_VERBOSE" ]; then
  exec "$ROOT/harness/target/release/check" "$@"
else
  exec "$ROOT/harness/target/release/check" "$@" 2>/dev/null
fi
