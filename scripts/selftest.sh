#!/bin/bash
# Sensitivity self-test: every selftest/Cxx-*.patch (a deliberate breakage of stam that violates property Cxx while
# compiling) is applied to a scratch copy of /repo HEAD and the quick tier of Cxx must exit 1.
# usage: scripts/selftest.sh [Cxx ...]     writes selftest/RESULTS.md (all patches) or prints (subset)
cd /verif
PROPS="$@"
OUT=/tmp/selftest-results.$$
: > $OUT
for f in $(ls selftest/C*.patch | sort -V); do
  P=$(basename $f | sed -E 's/^(C[0-9]+).*/\1/')
  if [ -n "$PROPS" ] && ! echo " $PROPS " | grep -q " $P "; then continue; fi
  # search only (committed witnesses are not replayed): the harder of the two modes - with the witnesses the tier can only catch more
  R=$(VERIF_SKIP_WITNESSES=1 scripts/mutant_run.sh -w selftest $f $P 2>&1 | tail -1 | cut -c1-260)
  echo "| $(basename $f) | $(echo "$R" | sed -E 's/^C[0-9]+ exit=([0-9]+).*/\1/') | $(echo "$R" | sed -E 's/^C[0-9]+ exit=[0-9]+ *//' | tr '|' '/' | cut -c1-160) |" | tee -a $OUT
done
if [ -z "$PROPS" ]; then
  { echo "| patch | exit (quick tier, search only: committed witnesses not replayed) | first failure |"; echo "|---|---|---|"; cat $OUT; } > selftest/RESULTS.md
fi
rm -f $OUT
git -C /repo worktree remove --force /tmp/ws-selftest/repo 2>/dev/null; rm -rf /tmp/ws-selftest
