#!/bin/bash
# evaluate every seeded change of /tmp/mutant-<Cxx>/out/* against the owning check and neighbours
# usage: scripts/seed_eval_all.sh <Cxx> <check> [<check>...]
P="$1"; shift
for d in /tmp/mutant-$P/out/*; do
  [ -f $d/patch.diff ] || continue
  N=$(basename $d)
  /verif/scripts/seed_eval.sh $d $P-$N "$@" 2>&1 | tail -n +2
done
