#!/usr/bin/env python3
"""Regenerates MANIFEST.json from the table below (kept as a script so the manifest stays valid and uniform)."""
import json, subprocess
CHECKS = {
 "C01": ("Model-based history testing: ~600k (quick) / 6M (thorough) generated operation histories, after every step all reverse lookups, forward views, the iterator-level maps and the raw index dump are compared with a brute-force computation over the store's forward references and with the reference model; a pass means no divergence on any generated prefix.",
         "Trusted: reference model (harness/src/model.rs), observation layer, hook dump (read-only), proptest. Histories up to 25/60 ops, texts up to 24/40 codepoints.",
         "stateful property-based testing against a reference model + brute-force index oracle", "DESIGN.md §3, §5 C01"),
 "C02": ("Model-based history testing with removals boosted: for every removal the return value, the exact set of survivors (cascade), the data of non-strict survivors and a full traversal/serialisation/query of the store are compared with the reference model's documented cascade.",
         "Trusted: the cascade rule as written in model.rs from the rustdoc of remove_*; proptest; histories up to 25/60 ops.",
         "stateful property-based testing against a reference model", "DESIGN.md §3, §5 C02"),
 "C13": ("Bounded-exhaustive enumeration of all pairs of ranges / small sets plus seeded random sets, every case under all 92 operator/modifier combinations and every public entry point, compared with interval-arithmetic definitions and the algebraic laws; a pass means no counterexample inside the enumerated scope and the random sample.",
         "Trusted: the interval-arithmetic definitions in harness/src/rel.rs (written from the rustdoc), proptest, the harness engine. Zero-width Overlaps and undocumented modifier combinations are don't-care.",
         "bounded-exhaustive + property-based testing against an interval-arithmetic oracle", "DESIGN.md §5 C13"),
}
NOT_YET = {}
THOROUGH = {}
import os
extra = os.path.join(os.path.dirname(__file__), "manifest_extra.json")
if os.path.exists(extra):
    e = json.load(open(extra))
    CHECKS.update({k: tuple(v) for k, v in e.get("checks", {}).items()})
    NOT_YET.update(e.get("not_applicable", {}))
    THOROUGH.update(e.get("thorough_cmd", {}))
checks = []
for pid in sorted(CHECKS):
    text, note, tech, ref = CHECKS[pid]
    checks.append({
        "property_id": pid,
        "quick_cmd": f"scripts/check.sh {pid} --tier quick",
        "thorough_cmd": THOROUGH.get(pid, f"scripts/check.sh {pid} --tier thorough"),
        "evidence_file": f"evidence/{pid}.json",
        "replay_cmd_template": f"scripts/check.sh {pid} --replay {{path}}",
        "engine": "stamverif",
        "level_claimed": {"category": "exploration", "text": text, "design_ref": ref},
        "level_note": note,
        "technique": tech,
    })
hooks_commits = subprocess.run(["git", "-C", "/repo", "log", "--format=%H", "-E", "--grep=^(verif hooks|hook:)"], capture_output=True, text=True).stdout.split()
m = {
    "version": 1,
    "setup_cmd": "scripts/check.sh --build-only",
    "hooks": {
        "guard": "stam_verif",
        "enable": "RUSTFLAGS=\"--cfg stam_verif\" (set by scripts/check.sh) when building the harness crate, which depends on /repo by path",
        "baseline_off_cmd": "cd /repo && cargo test --workspace --no-fail-fast --offline",
        "source_commits": hooks_commits,
        "add_only": True,
    },
    "engines": [{"name": "stamverif", "path": "harness", "serves_properties": sorted(CHECKS), "kind_free_text": "Rust crate: proptest-driven sharded runner with shrinking, replay files, known-finding matching, evidence writer; reference model + history interpreter"}],
    "checks": checks,
    "not_applicable": [{"property_id": f"C{i:02d}", "reason": NOT_YET.get(f"C{i:02d}", "check not built yet (work in progress; see DESIGN.md §9 build order)")} for i in range(1, 21) if f"C{i:02d}" not in CHECKS],
    "notes": "All checks: exit 0 held / 1 violation (VIOLATION line) / 2 inconclusive. Known findings and fixed defects: known_findings.txt (witnesses under findings/).",
}
json.dump(m, open(os.path.join(os.path.dirname(__file__), "..", "MANIFEST.json"), "w"), indent=1)
print("manifest:", len(checks), "checks")
