#!/bin/bash
# Coverage-guided fuzz campaign for property C19 (thorough tier only).
# usage: scripts/fuzz_c19.sh <c19_json|c19_csv|c19_cbor> <runs> <seed>
# exit: 0 no crash, 1 crash (VIOLATION line with a harness replay file), 2 the targets could not be built / run
ROOT="$(cd "$(dirname "$0")/.." && pwd)"
TARGET="$1"; RUNS="${2:-100000}"; SEED="${3:-20260926}"
case "$TARGET" in c19_json|c19_csv|c19_cbor) ;; *) echo "usage: $0 <c19_json|c19_csv|c19_cbor> <runs> <seed>"; exit 2;; esac
export VERIF_ROOT="${VERIF_ROOT:-$ROOT}" CARGO_NET_OFFLINE=true RUSTFLAGS="--cfg stam_verif"
FUZZDIR="${C19_FUZZ_DIR:-$ROOT/fuzz}"
HARNESS="${C19_HARNESS_DIR:-$ROOT/harness}"
LOG="$FUZZDIR/build.log"
# 1. the harness binaries (seed corpus generator, replay converter)
( cd "$HARNESS" && cargo build --release --offline >"$HARNESS/build.log" 2>&1 ) || { echo "INCONCLUSIVE property=C19 harness build failed (see $HARNESS/build.log)"; exit 2; }
CORPUSBIN="$HARNESS/target/release/c19_corpus"
# 2. the fuzz targets (nightly + cargo-fuzz; offline). Failure degrades the thorough tier to the proptest mutators.
[ -f "$FUZZDIR/Cargo.lock" ] || cp "$HARNESS/Cargo.lock" "$FUZZDIR/Cargo.lock"
if ! ( cd "$FUZZDIR" && cargo +nightly fuzz build --fuzz-dir "$FUZZDIR" "$TARGET" >"$LOG" 2>&1 ); then
  echo "INCONCLUSIVE property=C19 fuzz target $TARGET could not be built (see $LOG); the thorough tier falls back to the proptest mutators of scripts/check.sh C19 --tier thorough"
  exit 2
fi
# 3. fresh corpus under a temp dir, seeded with valid documents written by the harness
WORK="$(mktemp -d "${VERIF_TMP:-/tmp}/c19fuzz.XXXXXX")"
trap 'rm -rf "$WORK"' EXIT
# scratch files of the seed generator and of the fuzz target live (and die) with this directory
export VERIF_TMP="$WORK"
"$CORPUSBIN" emit "$WORK/seeds" 60 >/dev/null 2>&1 || { echo "INCONCLUSIVE property=C19 seed corpus could not be generated"; exit 2; }
mkdir -p "$WORK/corpus" "$WORK/artifacts"
cp "$WORK/seeds/$TARGET"/* "$WORK/corpus/" 2>/dev/null
if [ "$TARGET" = "c19_csv" ] && [ -d /repo/tests ]; then
  # the pinned CSV example as an extra seed (container format: files separated by "##### <name>" lines)
  { cat /repo/tests/test.store.stam.csv; printf '\n##### test.annotations.stam.csv\n'; cat /repo/tests/test.annotations.stam.csv; printf '\n##### test.annotationset.stam.csv\n'; cat /repo/tests/test.annotationset.stam.csv; printf '\n##### hello.txt\n'; cat /repo/tests/hello.txt; } > "$WORK/corpus/pinned-example" 2>/dev/null
fi
N=$(ls "$WORK/corpus" | wc -l)
# 4. the campaign: deterministic for a given (tree, runs, seed); known findings are tolerated inside the target.
#    All paths are absolute: the target changes its working directory for every input.
cd "$FUZZDIR" || exit 2
BIN="$FUZZDIR/target/x86_64-unknown-linux-gnu/release/$TARGET"
[ -x "$BIN" ] || { echo "INCONCLUSIVE property=C19 fuzz binary $BIN missing"; exit 2; }
"$BIN" "$WORK/corpus" -runs="$RUNS" -seed="$SEED" -dict="$FUZZDIR/dict/$TARGET.dict" -max_len=16384 -timeout=120 -rss_limit_mb=3072 \
   -artifact_prefix="$WORK/artifacts/" -print_final_stats=1 >"$WORK/fuzz.log" 2>&1
RC=$?
EXECS=$(grep -a "stat::number_of_executed_units" "$WORK/fuzz.log" | awk '{print $2}')
COV=$(grep -a " cov: " "$WORK/fuzz.log" | tail -1 | sed -E 's/.* cov: ([0-9]+).*/\1/')
ART=$(ls "$WORK/artifacts" 2>/dev/null | head -1)
if [ -n "$ART" ]; then
  mkdir -p "$VERIF_ROOT/replays"
  KIND=${ART%%-*}
  OUT="$VERIF_ROOT/replays/C19-fuzz-$TARGET-$SEED-${ART##*-}.json"
  "$CORPUSBIN" to-replay "$TARGET" "$WORK/artifacts/$ART" > "$OUT" 2>/dev/null
  cp "$WORK/artifacts/$ART" "$VERIF_ROOT/replays/C19-fuzz-$TARGET-$SEED-${ART##*-}.input"
  grep -a "C19 failure\|panicked at\|ERROR: libFuzzer\|SUMMARY" "$WORK/fuzz.log" | head -8 | cut -c1-400
  if [ "$KIND" = "timeout" ] || [ "$KIND" = "slow" ]; then
    echo "INCONCLUSIVE property=C19 fuzz target $TARGET: one input exceeded the 120 s wall-clock limit of the campaign (not a violation); replay=$OUT"
    exit 2
  fi
  echo "VIOLATION property=C19 replay=$OUT (fuzz target $TARGET, seed $SEED, artifact kind $KIND)"
  exit 1
fi
if [ $RC -ne 0 ]; then
  tail -5 "$WORK/fuzz.log" | cut -c1-300
  echo "INCONCLUSIVE property=C19 fuzz target $TARGET exited with status $RC without an artifact"
  exit 2
fi
echo "OK property=C19 fuzz target=$TARGET seed=$SEED runs=${EXECS:-$RUNS} seed_corpus=$N coverage_edges=${COV:-?}"
exit 0
