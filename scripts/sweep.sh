#!/bin/bash
# Multi-seed silence sweep of the registered quick checks (not a registered check itself).
# usage: scripts/sweep.sh "<seeds>" [tier] [Cxx ...]    e.g. scripts/sweep.sh "1 2 3" quick
ROOT="$(cd "$(dirname "$0")/.." && pwd)"; cd "$ROOT"
SEEDS="${1:-1 2 3}"; TIER="${2:-quick}"; shift 2 2>/dev/null
PROPS="$@"; [ -n "$PROPS" ] || PROPS=$(jq -r '.checks[].property_id' MANIFEST.json | sort -u)
scripts/check.sh --build-only || exit 2
BAD=0
for S in $SEEDS; do
 for P in $PROPS; do
  T0=$(date +%s)
  VERIF_SEED=$S scripts/check.sh $P --tier $TIER --no-evidence > /tmp/sweep-$$.log 2>&1; RC=$?
  T1=$(date +%s)
  echo "seed=$S $P rc=$RC t=$((T1-T0))s $(grep -v '^KNOWN-FINDING' /tmp/sweep-$$.log | tail -1 | cut -c1-220)"
  [ $RC -ne 0 ] && BAD=1 && grep -E "VIOLATION|INCONCLUSIVE|failure" /tmp/sweep-$$.log | head -5
 done
done
rm -f /tmp/sweep-$$.log
exit $BAD
