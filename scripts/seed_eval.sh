#!/bin/bash
# Confirm a seeded change and evaluate the checks against it.
# usage: scripts/seed_eval.sh <seed dir with patch.diff demo.rs meta.json> <name> <Cxx> [<Cxx>...]
# Steps (in scratch workspace /tmp/ws-seed, /repo untouched): demo passes on HEAD; patch applies; pinned suite passes with patch;
# demo fails with patch; then the given checks are run against HEAD+patch. Writes <seed dir>/eval.txt.
SRC="$(readlink -f "$1")"; NAME="$2"; shift 2
WSN=${SEED_WS:-seed}; WS=/tmp/ws-$WSN
/verif/scripts/agent_ws.sh $WSN >/dev/null || exit 2
HEAD=$(git -C /repo rev-parse ${SEED_BASE:-HEAD})   # SEED_BASE: evaluate against an older commit (a seed written before later fix commits touched the same lines)
R=$WS/repo
git -C $R reset -q --hard; git -C $R clean -qfd; git -C $R checkout -q --detach $HEAD || exit 2
OUT="$SRC/eval.txt"; : > "$OUT"
log() { echo "$@" | tee -a "$OUT"; }
log "seed=$NAME repo_head=$HEAD"
cp "$SRC/demo.rs" $R/tests/demo_seed.rs
( cd $R && cargo test --offline --test demo_seed >/tmp/$WSN-demo0.log 2>&1 ); D0=$?
log "demo on HEAD: exit=$D0 (expected 0)"
if ! git -C $R apply "$SRC/patch.diff" 2>/tmp/$WSN-apply.log; then
  if ! git -C $R apply --3way "$SRC/patch.diff" 2>>/tmp/$WSN-apply.log; then log "PATCH DOES NOT APPLY: $(head -3 /tmp/$WSN-apply.log | tr '\n' ' ')"; git -C $R reset -q --hard; git -C $R clean -qfd; exit 3; fi
fi
( cd $R && cargo test --offline --test demo_seed >/tmp/$WSN-demo1.log 2>&1 ); D1=$?
log "demo with patch: exit=$D1 (expected non-zero)"
rm -f $R/tests/demo_seed.rs
( cd $R && cargo test --offline --no-fail-fast 2>&1 | grep -E "^test result|^test .* FAILED" > /tmp/$WSN-suite.log )
FAILED=$(grep "FAILED" /tmp/$WSN-suite.log | grep -v test_write_include | tr '\n' ' ')
log "pinned suite with patch: $(grep -c '^test result: ok' /tmp/$WSN-suite.log) ok binaries; failing tests other than the flaky one: [${FAILED}]"
git -C $R diff HEAD > /tmp/$WSN-current.diff
git -C $R reset -q --hard ; git -C $R clean -qfd
for P in "$@"; do
  res=$(MUT_BASE=$HEAD MUT_ARGS="--tier quick" /verif/scripts/mutant_run.sh -w $WSN /tmp/$WSN-current.diff $P 2>&1 | tail -1 | cut -c1-330)
  log "check $res"
done
