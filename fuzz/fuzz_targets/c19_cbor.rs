//! libFuzzer target for C19 (loading untrusted cbor never panics, aborts or hangs); oracle shared with the harness.
#![no_main]
use libfuzzer_sys::fuzz_target;

// the oracle's memory facets (peak live bytes, allocation count) need the counting allocator
#[global_allocator]
static GLOBAL: stamverif::props::c19::alloc::CountingAlloc = stamverif::props::c19::alloc::CountingAlloc;

fuzz_target!(init: { stamverif::props::c19::fuzz_init(); }, |data: &[u8]| {
    stamverif::props::c19::fuzz_one("c19_cbor", data);
});
